"""CrossHair properties of xitorch._utils.misc.get_method over ALL strings of length <= 4 (symbolic str)."""
from typing import Dict
from xitorch._utils.misc import get_method

import os
MAXLEN = int(os.environ.get("CH_MAXLEN", "3"))
TABLE: Dict[str, int] = {"cg": 1, "rk4": 2, "mh": 3}


def _lookup(name: str) -> int:
    """0 = rejected with RuntimeError, otherwise the table entry"""
    try:
        return get_method("alg", TABLE, name)   # type: ignore
    except RuntimeError:
        return 0


def prop_case_insensitive(name: str) -> bool:
    """
    post: _
    """
    if len(name) > MAXLEN:
        return True
    got = _lookup(name)
    low = name.lower()
    if low in TABLE:
        return got == TABLE[low]
    return got == 0


def prop_unknown_rejected(name: str) -> bool:
    """
    post: _
    """
    if len(name) > MAXLEN:
        return True
    if name.lower() in TABLE:
        return True
    try:
        get_method("alg", TABLE, name)   # type: ignore
    except RuntimeError:
        return True
    return False


def prop_upper_equals_lower(name: str) -> bool:
    """
    post: _
    """
    if len(name) > MAXLEN:
        return True
    return _lookup(name.upper()) == _lookup(name.lower())


def twin_must_be_refuted(name: str) -> bool:
    """
    post: _
    """
    # vacuity twin: claims that nothing is ever found in the table (false for "cg")
    if len(name) > MAXLEN:
        return True
    return _lookup(name) == 0
