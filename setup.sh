#!/bin/bash
# builds the overlay venv (offline) if it is missing: /venv's packages + /repo's working tree + solver wheels
set -e
HERE="$(cd "$(dirname "$0")" && pwd)"
V="$HERE/.venv"
if [ -x "$V/bin/python" ] && "$V/bin/python" -c "import z3, crosshair, torch, xitorch" >/dev/null 2>&1; then
  exit 0
fi
rm -rf "$V"
/venv/bin/python -m venv "$V"
SP="$("$V/bin/python" -c 'import site; print(site.getsitepackages()[0])')"
printf "import site; site.addsitedir('/venv/lib/python3.12/site-packages')\n/repo\n" > "$SP/verif_overlay.pth"
PIP_NO_INDEX=1 "$V/bin/python" -m pip install -q --no-index --find-links /opt/veriftools/wheels z3-solver crosshair-tool cvc5
"$V/bin/python" -c "import z3, crosshair, torch, xitorch; print('overlay venv ok', z3.get_version_string())"
