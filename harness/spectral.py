"""Planted spectral data: matrices built from their factors, so that LAPACK-backed kernels can be replaced by
'return the planted factor once the argument is proved equal to the planted product'."""
import torch


def rot2(t):
    """2x2 rotation from the rational parametrisation c=(1-t^2)/(1+t^2), s=2t/(1+t^2)"""
    d = 1 + t * t
    c = (1 - t * t) / d
    s = 2 * t / d
    return torch.stack([torch.stack([c, -s]), torch.stack([s, c])])


def rot3(q):
    """3x3 rotation from a (non-normalised) quaternion q=(w,x,y,z): rational in q"""
    w, x, y, z = q[0], q[1], q[2], q[3]
    n = w * w + x * x + y * y + z * z
    r = [[1 - 2 * (y * y + z * z) / n, 2 * (x * y - z * w) / n, 2 * (x * z + y * w) / n],
         [2 * (x * y + z * w) / n, 1 - 2 * (x * x + z * z) / n, 2 * (y * z - x * w) / n],
         [2 * (x * z - y * w) / n, 2 * (y * z + x * w) / n, 1 - 2 * (x * x + y * y) / n]]
    return torch.stack([torch.stack(row) for row in r])


def lower(l, ld):
    """lower-triangular factor with positive diagonal ld"""
    return torch.tril(l, diagonal=-1) + torch.diag_embed(ld)
