"""C17 - jac and hess are the true Jacobian and Hessian as differentiable operators."""
import torch
import xitorch
from xitorch.grad import jac, hess

from harness.base import grads

PROPERTY = "C17"
DEFAULT_OPTS = {"validate": 2, "timeout_ms": 15000, "budget_s": 300, "max_paths": 40}

META = {
    "bounds": "polynomial maps of three tensor arguments of shapes (2,), (2,2) and () with symbolic entries (and a module-held "
              "parameter); index selections None / int / list; operand batches () , (2,), (2,1); first-order differentiation of the "
              "products w.r.t. the point and the parameters",
    "outside": "larger tensors, non-polynomial functions (autograd's own formulas are trusted), float32, rounding",
    "assumptions": ["dense reference Jacobians/Hessians are obtained by element-wise torch.autograd.grad in the harness"],
}


def _dense_jac(out, inp, create_graph=True):
    """(nout, nin) Jacobian by element-wise autograd"""
    rows = []
    of = out.reshape(-1)
    for i in range(of.numel()):
        g, = torch.autograd.grad(of[i], inp, create_graph=create_graph, retain_graph=True, allow_unused=True)
        if g is None:
            g = torch.zeros_like(inp)
        rows.append(g.reshape(-1))
    return torch.stack(rows, dim=0)


def _f(x, A, s):
    return torch.matmul(A, x * x) + s * x


class Mod(torch.nn.Module):
    def __init__(self, A):
        super().__init__()
        self.A = torch.nn.Parameter(A)

    def forward(self, x, s):
        return torch.matmul(self.A, x * x) + s * x


def _check_ops(cx, op, J, tag, bshape=(), with_H=True):
    nout, nin = J.shape
    cx.claim_true("shape" + tag, tuple(op.shape) == (nout, nin), detail=str(op.shape))
    v = cx.sym("v" + tag, bshape + (nin,))
    V = cx.sym("V" + tag, bshape + (nin, 2))
    u = cx.sym("u" + tag, bshape + (nout,))
    U = cx.sym("U" + tag, bshape + (nout, 2))
    cx.claim_eq("mv" + tag, op.mv(v), torch.matmul(J, v.unsqueeze(-1)).squeeze(-1))
    cx.claim_eq("mm" + tag, op.mm(V), torch.matmul(J, V))
    cx.claim_eq("rmv" + tag, op.rmv(u), torch.matmul(J.transpose(-2, -1), u.unsqueeze(-1)).squeeze(-1))
    cx.claim_eq("rmm" + tag, op.rmm(U), torch.matmul(J.transpose(-2, -1), U))
    cx.claim_eq("fullmatrix" + tag, op.fullmatrix(), J)
    if with_H:
        cx.claim_eq("H.mv" + tag, op.H.mv(u), torch.matmul(J.transpose(-2, -1), u.unsqueeze(-1)).squeeze(-1))
        cx.claim_eq("H.fullmatrix" + tag, op.H.fullmatrix(), J.transpose(-2, -1))


def jac_products(cx, kind="pure", idxs=None, bshape=()):
    x = cx.sym("x", (2,), requires_grad=True)
    A = cx.sym("A", (2, 2), requires_grad=True)
    s = cx.sym("s", (), requires_grad=True)
    if kind == "pure":
        params = (x, A, s)
        ops = jac(_f, params, idxs=idxs)
        out = _f(x, A, s)
        inputs = [x, A, s]
    else:
        mod = Mod(A)
        params = (x, s)
        ops = jac(mod.forward, params, idxs=idxs)
        out = mod.forward(x, s)
        inputs = [x, s]
    if idxs is None:
        sel = list(range(len(inputs)))
    elif isinstance(idxs, int):
        sel = [idxs]
        cx.claim_true("single operator for an int index", isinstance(ops, xitorch.LinearOperator))
        ops = [ops]
    else:
        sel = list(idxs)
    cx.claim_true("number of operators", len(ops) == len(sel))
    for op, i in zip(ops, sel):
        J = _dense_jac(out, inputs[i])
        _check_ops(cx, op, J, "/arg%d" % i, bshape=bshape)
    return "ok"


def jac_differentiable(cx, build="grad_on", which="jac"):
    """products are differentiable w.r.t. the point and the parameters - whatever the autograd mode was when the operator
    was BUILT (build='no_grad': constructed inside torch.no_grad(), products taken later with grad on; and the reverse:
    constructed with grad on, a product taken under no_grad must not carry a graph but have the right value)"""
    x = cx.sym("x", (2,), requires_grad=True)
    A = cx.sym("A", (2, 2), requires_grad=True)
    s = cx.sym("s", (), requires_grad=True)
    if which == "hess":
        def phi(x_, A_, s_):
            return (torch.matmul(A_, x_ * x_) * x_).sum() + s_ * (x_ * x_ * x_).sum()
        if build == "no_grad":
            with torch.no_grad():
                op = hess(phi, (x, A, s), idxs=0)
        else:
            op = hess(phi, (x, A, s), idxs=0)
        g0, = torch.autograd.grad(phi(x, A, s), x, create_graph=True)
        Hd = _dense_jac(g0, x)
        v = cx.sym("v", (2,))
        w = cx.sym("w", (2,))
        l1 = (w * op.mv(v)).sum()
        l2 = (w * torch.matmul(Hd, v)).sum()
        for nm, a, b in zip(["x", "A", "s"], grads(l1, [x, A, s]), grads(l2, [x, A, s])):
            cx.claim_eq("d(w.Hv)/d" + nm, a, b)
        return "ok"
    if build == "no_grad":
        with torch.no_grad():
            op = jac(_f, (x, A, s), idxs=0)
    else:
        op = jac(_f, (x, A, s), idxs=0)
        Jd = _dense_jac(_f(x, A, s), x).detach()
        v0 = cx.sym("v0", (2,))
        with torch.no_grad():
            y0 = op.mv(v0)
        cx.claim_true("a product taken under no_grad carries no graph", not y0.requires_grad)
        cx.claim_eq("value of a product taken under no_grad", y0, torch.matmul(Jd, v0))
    J = _dense_jac(_f(x, A, s), x)
    v = cx.sym("v", (2,))
    u = cx.sym("u", (2,))
    w = cx.sym("w", (2,))
    l1 = (w * op.mv(v)).sum()
    l2 = (w * torch.matmul(J, v)).sum()
    for nm, a, b in zip(["x", "A", "s"], grads(l1, [x, A, s]), grads(l2, [x, A, s])):
        cx.claim_eq("d(w.Jv)/d" + nm, a, b)
    l1 = (w * op.rmv(u)).sum()
    l2 = (w * torch.matmul(J.transpose(-2, -1), u)).sum()
    for nm, a, b in zip(["x", "A", "s"], grads(l1, [x, A, s]), grads(l2, [x, A, s])):
        cx.claim_eq("d(w.JTu)/d" + nm, a, b)
    return "ok"


def jac_aliased(cx, case="same_tensor_twice"):
    """the Jacobian w.r.t. ONE argument position at the given point, when the same tensor also occupies another position
    (partial, not total derivative); and an argument the function does not depend on (zero operator)"""
    x = cx.sym("x", (2,), requires_grad=True)
    y = cx.sym("y", (2,), requires_grad=True)
    if case == "same_tensor_twice":
        f = lambda a, b: a * a * b
        op = jac(f, (x, x), idxs=0)
        x2 = x.detach().clone().requires_grad_()
        J = _dense_jac(f(x2, x.detach()), x2).detach()        # partial derivative w.r.t. position 0 at the point (x, x)
        v = cx.sym("v", (2,))
        with torch.no_grad():
            cx.claim_eq("partial Jacobian: mv", op.mv(v), torch.matmul(J, v))
            cx.claim_eq("partial Jacobian: rmv", op.rmv(v), torch.matmul(J.transpose(-2, -1), v))
            cx.claim_eq("partial Jacobian: fullmatrix", op.fullmatrix(), J)
    else:
        f = lambda a, b: a * 2.0
        op = jac(f, (x, y), idxs=1)
        v = cx.sym("v", (2,))
        with torch.no_grad():
            cx.claim_true("shape", tuple(op.shape) == (2, 2))
            cx.claim_eq("zero Jacobian: mv", op.mv(v), torch.zeros_like(v))
            cx.claim_eq("zero Jacobian: rmv", op.rmv(v), torch.zeros_like(v))
    return "ok"


def jac_newparams(cx):
    """after uselinopparams with new tensors the products follow the new values (cache invalidation)"""
    x = cx.sym("x", (2,), requires_grad=True)
    A = cx.sym("A", (2, 2), requires_grad=True)
    s = cx.sym("s", (), requires_grad=True)
    op = jac(_f, (x, A, s), idxs=0)
    v = cx.sym("v", (2,))
    u = cx.sym("u", (2,))
    first = op.mv(v)       # fills the cache with the original parameters
    x2 = cx.sym("x2", (2,), requires_grad=True)
    A2 = cx.sym("A2", (2, 2), requires_grad=True)
    s2 = cx.sym("s2", (), requires_grad=True)
    J2 = _dense_jac(_f(x2, A2, s2), x2)
    old = op.getlinopparams()
    cx.claim_true("parameters are the three tensors", len(old) == 3)
    with op.uselinopparams(x2, A2, s2):
        cx.claim_eq("mv with new params", op.mv(v), torch.matmul(J2, v))
        cx.claim_eq("rmv with new params", op.rmv(u), torch.matmul(J2.transpose(-2, -1), u))
    J = _dense_jac(_f(x, A, s), x)
    cx.claim_eq("mv after restore", op.mv(v), torch.matmul(J, v))
    cx.claim_eq("first call", first, torch.matmul(J, v))
    cx.claim_true("parameters restored (same objects)", all(a is b for a, b in zip(op.getlinopparams(), old)))
    return "ok"


def _g(c, k, x, y):
    # c: tensor that does not require grad, k: python number
    return c * x * x * y + k * x * y * y


def jac_newparams_nd(cx, which="jac"):
    """argument selection when non-differentiable arguments precede the selected one, on the re-evaluation path"""
    c = cx.sym("c", (2,))
    x = cx.sym("x", (2,), requires_grad=True)
    y = cx.sym("y", (2,), requires_grad=True)
    v = cx.sym("v", (2,))
    u = cx.sym("u", (2,))
    x2 = cx.sym("x2", (2,), requires_grad=True)
    y2 = cx.sym("y2", (2,), requires_grad=True)
    if which == "jac":
        op = jac(_g, (c, 1.5, x, y), idxs=2)
        J = _dense_jac(_g(c, 1.5, x, y), x)
        J2 = _dense_jac(_g(c, 1.5, x2, y2), x2)
    else:
        sc = lambda c_, k_, x_, y_: (_g(c_, k_, x_, y_) * x_).sum()
        op = hess(sc, (c, 1.5, x, y), idxs=2)
        g, = torch.autograd.grad(sc(c, 1.5, x, y), x, create_graph=True)
        J = _dense_jac(g, x)
        g2, = torch.autograd.grad(sc(c, 1.5, x2, y2), x2, create_graph=True)
        J2 = _dense_jac(g2, x2)
    _check_ops(cx, op, J, "/built", with_H=False)
    old = op.getlinopparams()
    cx.claim_true("operator parameters are the differentiable tensors", len(old) == 2 and old[0] is x and old[1] is y,
                  detail=str(len(old)))
    with op.uselinopparams(x2, y2):
        _check_ops(cx, op, J2, "/replaced", with_H=False)
    cx.claim_eq("mv after restore", op.mv(v), torch.matmul(J, v))
    cx.claim_eq("rmv after restore", op.rmv(u), torch.matmul(J.transpose(-2, -1), u))
    return "ok"


def jac_newparams_module(cx, which="jac"):
    """a parameter HELD BY THE MODULE is among the operator's tensors: replacing it through uselinopparams must be followed by
    the products, and the module must hold its own Parameter again afterwards"""
    x = cx.sym("x", (2,), requires_grad=True)
    A = cx.sym("A", (2, 2), requires_grad=True)
    s = cx.sym("s", (), requires_grad=True)
    mod = Mod(A)
    v = cx.sym("v", (2,))
    u = cx.sym("u", (2,))
    x2 = cx.sym("x2", (2,), requires_grad=True)
    A2 = cx.sym("A2", (2, 2), requires_grad=True)
    s2 = cx.sym("s2", (), requires_grad=True)
    if which == "jac":
        op = jac(mod.forward, (x, s), idxs=0)
        dense = lambda x_, A_, s_: _dense_jac(torch.matmul(A_, x_ * x_) + s_ * x_, x_)
    else:
        sc = lambda x_, A_, s_: (x_ * (torch.matmul(A_, x_ * x_) + s_ * x_)).sum()

        class ModS(torch.nn.Module):
            def __init__(self, A_):
                super().__init__()
                self.A = torch.nn.Parameter(A_)

            def forward(self, x_, s_):
                return sc(x_, self.A, s_)
        mod = ModS(A)
        op = hess(mod.forward, (x, s), idxs=0)

        def dense(x_, A_, s_):
            g, = torch.autograd.grad(sc(x_, A_, s_), x_, create_graph=True)
            return _dense_jac(g, x_)
    old = op.getlinopparams()
    held = mod.A
    cx.claim_true("operator parameters: the point, the explicit parameter and the module's parameter", len(old) == 3,
                  detail=str(len(old)))
    J = dense(x, held, s)
    cx.claim_eq("mv at the construction point", op.mv(v), torch.matmul(J, v))
    new = [x2, s2, A2]
    if len(old) == 3:
        # same order as getlinopparams: identify the positions by shape
        new = [{(2,): x2, (): s2, (2, 2): A2}[tuple(p.shape)] for p in old]
    J2 = dense(x2, A2, s2)
    with op.uselinopparams(*new):
        cx.claim_eq("mv with all tensors replaced", op.mv(v), torch.matmul(J2, v))
        cx.claim_eq("rmv with all tensors replaced", op.rmv(u), torch.matmul(J2.transpose(-2, -1), u))
    cx.claim_true("the module holds its own Parameter again", mod.A is held and isinstance(mod.A, torch.nn.Parameter)
                  and list(dict(mod.named_parameters()).keys()) == ["A"])
    cx.claim_eq("mv after restore", op.mv(v), torch.matmul(J, v))
    return "ok"


def _phi(x, A, s):
    # scalar function with a non-trivial Hessian in x, A and s
    return (x * torch.matmul(A * A, x * x)).sum() + s * s * (x[0] * x[1]) + s * A[0, 1]


def _phi_lin(x, A, s):
    # linear in A: the Hessian w.r.t. A is identically zero
    return (x * torch.matmul(A, x * x)).sum() + s * (x[0] * x[1])


def hess_products(cx, bshape=(), idxs=0, linear=False):
    x = cx.sym("x", (2,), requires_grad=True)
    A = cx.sym("A", (2, 2), requires_grad=True)
    s = cx.sym("s", (), requires_grad=True)
    inputs = [x, A, s]
    _phi = _phi_lin if linear else globals()["_phi"]
    ops = hess(_phi, (x, A, s), idxs=idxs)
    if isinstance(idxs, int):
        ops, sel = [ops], [idxs]
    else:
        sel = list(idxs)
    for op, i in zip(ops, sel):
        g, = torch.autograd.grad(_phi(x, A, s), inputs[i], create_graph=True)
        Hd = _dense_jac(g, inputs[i])
        cx.claim_eq("dense Hessian symmetric/arg%d" % i, Hd, Hd.transpose(-2, -1))
        cx.claim_true("flagged Hermitian/arg%d" % i, bool(op.is_hermitian))
        _check_ops(cx, op, Hd, "/arg%d" % i, bshape=bshape)
    return "ok"


def index_validation(cx):
    x = cx.sym("x", (2,), requires_grad=True)
    A = cx.sym("A", (2, 2))            # does not require grad
    s = cx.sym("s", (), requires_grad=True)

    def raises(f):
        try:
            f()
        except TypeError:
            return True
        except Exception:
            return False
        return False
    cx.claim_true("jac w.r.t. a non-differentiable tensor is rejected", raises(lambda: jac(_f, (x, A, s), idxs=1)))
    cx.claim_true("jac w.r.t. a non-tensor is rejected", raises(lambda: jac(lambda x_, k: x_ * k, (x, 2.0), idxs=[1])))
    cx.claim_true("hess w.r.t. a non-differentiable tensor is rejected", raises(lambda: hess(_phi, (x, A, s), idxs=[0, 1])))
    # index 0 / empty selections (falsy values must not be taken for "no selection")
    cx.claim_true("jac w.r.t. a non-differentiable FIRST argument (idxs=0) is rejected",
                  raises(lambda: jac(lambda A_, x_, s_: _f(x_, A_, s_), (A, x, s), idxs=0)))
    cx.claim_true("jac w.r.t. a non-tensor first argument (idxs=0) is rejected", raises(lambda: jac(lambda k, x_: x_ * k, (2.0, x), idxs=0)))
    cx.claim_true("hess w.r.t. a non-differentiable first argument (idxs=0) is rejected",
                  raises(lambda: hess(lambda A_, x_, s_: _phi(x_, A_, s_), (A, x, s), idxs=0)))
    empty = jac(_f, (x, A, s), idxs=[])
    cx.claim_true("an empty selection gives no operator", isinstance(empty, (list, tuple)) and len(empty) == 0, detail=str(empty))
    ops = jac(_f, (x, A, s))
    cx.claim_true("idxs=None selects exactly the differentiable tensors", len(ops) == 2)
    J0 = _dense_jac(_f(x, A, s), x)
    v = cx.sym("v", (2,))
    cx.claim_eq("mv/arg0 with a constant A", ops[0].mv(v), torch.matmul(J0, v))
    return "ok"


def configs(tier):
    cfgs = []

    def add(id_, scenario, opts=None, **params):
        cfgs.append({"id": id_, "scenario": scenario, "params": params, "opts": opts or {}})

    add("jac/pure/all", jac_products, kind="pure", idxs=None)
    add("jac/pure/int1", jac_products, kind="pure", idxs=1)
    add("jac/pure/list20", jac_products, kind="pure", idxs=[2, 0])
    add("jac/pure/int0/batch2", jac_products, kind="pure", idxs=0, bshape=(2,))
    add("jac/pure/int2/batch21", jac_products, kind="pure", idxs=2, bshape=(2, 1))
    add("jac/module/all", jac_products, kind="module", idxs=None)
    add("jac/module/int0/batch2", jac_products, kind="module", idxs=0, bshape=(2,))
    add("jac/differentiable", jac_differentiable)
    add("jac/differentiable/built_under_no_grad", jac_differentiable, build="no_grad")
    add("hess/differentiable/built_under_no_grad", jac_differentiable, build="no_grad", which="hess")
    add("hess/differentiable", jac_differentiable, which="hess")
    add("jac/newparams", jac_newparams)
    add("jac/newparams/nondiff_args_first", jac_newparams_nd, which="jac")
    add("hess/newparams/nondiff_args_first", jac_newparams_nd, which="hess")
    add("jac/newparams/module_held", jac_newparams_module, which="jac")
    add("hess/newparams/module_held", jac_newparams_module, which="hess")
    add("hess/int0", hess_products, idxs=0)
    add("hess/int0/batch2", hess_products, idxs=0, bshape=(2,))
    add("hess/list01", hess_products, idxs=[0, 1])
    add("index_validation", index_validation)
    add("hess/linear_argument", hess_products, idxs=[1], linear=True)
    add("jac/aliased_arguments", jac_aliased, case="same_tensor_twice")
    add("jac/unused_argument", jac_aliased, case="unused")
    if tier == "thorough":
        big = {"budget_s": 1500, "timeout_ms": 60000}
        add("jac/pure/all/batch21", jac_products, kind="pure", idxs=None, bshape=(2, 1), opts=big)
        add("hess/list012/batch2", hess_products, idxs=[0, 1, 2], bshape=(2,), opts=big)
    return cfgs
