"""Symbolic object identities: the module-level name `id` of a xitorch module is rebound (at run time, from the harness, no source
hook) to return SymId objects.  Their hashes collide on purpose, so that dicts and sets fall back to ==, and == is a symbolic
comparison that forks in the path explorer: z3 prunes infeasible aliasing patterns (transitivity) and proves the claims per
path for ALL aliasing patterns of the bound."""
import contextlib
import math


class SymId:
    __slots__ = ("v",)

    def __init__(self, v):
        self.v = v

    def __hash__(self):
        return 0

    def __eq__(self, o):
        if not isinstance(o, SymId):
            return False
        return bool(self.v == o.v)

    def __ne__(self, o):
        return not self.__eq__(o)


def symbolic_ids(cx, n, prefix="id"):
    """n identity values: symbolic in the symbolic mode; small integers with collisions in the concrete modes"""
    vals = []
    for i in range(n):
        v = cx.scalar("%s%d" % (prefix, i), lo=-2, hi=2)
        if not cx.symbolic:
            c = v.const() if hasattr(v, "const") else v
            v = math.floor(float(c))
        vals.append(v)
    return vals


@contextlib.contextmanager
def rebound_id(module, objs, vals):
    """inside the block, module.id(o) is the symbolic identity of o (objects not in objs keep a unique concrete identity)"""
    real_id = id
    table = {real_id(o): SymId(v) for o, v in zip(objs, vals)}
    extra = {}

    def sym_id(o):
        k = real_id(o)
        if k in table:
            return table[k]
        if k not in extra:
            extra[k] = SymId(1000 + len(extra))
        return extra[k]
    module.id = sym_id
    try:
        yield table
    finally:
        del module.id
