"""C13 - quad gradients in parameters and limits match the forward rule's accuracy."""
import numpy as np
import torch
import xitorch
from xitorch.integrate import quad

from harness.base import grads, zero_if_none
from harness.paramgraph import param_graph_claims

PROPERTY = "C13"
DEFAULT_OPTS = {"validate": 2, "timeout_ms": 15000, "budget_s": 240, "max_paths": 40}

META = {
    "bounds": "forward n in {2,3} with quartic/quintic-in-x integrands (so that the n-point value differs from the default "
              "100-point one), bck_options n in {1,3}; parameters as explicit tensors, module-held parameters and extra tensors the "
              "integrand does not use; limits as tensors (requiring grad or not), python numbers and infinite (tan/atan/cos "
              "uninterpreted); sequences of two calls with different options; first order everywhere, second order w.r.t. parameters",
    "outside": "second derivatives w.r.t. the limits twice, float32, rounding",
    "assumptions": ["reference = the same n-point rule (numpy leggauss read as exact rationals) applied in the harness with "
                    "detached nodes/weights, differentiated by plain autograd; limit gradients are compared with +g*f(xu), -g*f(xl)"],
}


def _rule(n, xl, xu, f):
    xi, om = np.polynomial.legendre.leggauss(n)
    half = (xu - xl) * 0.5
    mid = (xu + xl) * 0.5
    tot = 0
    for i in range(n):
        tot = tot + (half * float(om[i])) * f(half * float(xi[i]) + mid)
    return tot


def _as_t(v):
    return v if isinstance(v, torch.Tensor) else torch.tensor(v, dtype=torch.float64)


class Mod(torch.nn.Module):
    def __init__(self, a, unused):
        super().__init__()
        self.a = torch.nn.Parameter(a)
        self.unused = torch.nn.Parameter(unused)

    def forward(self, x, b):
        return self.a * x ** 4 + b * x + self.a * b * x * x


def gradient(cx, n=2, bck_n=None, limits="tensor", kind="pure", second=False, unused=True, only_limits=False):
    a = cx.sym("a", (), requires_grad=not only_limits)
    b = cx.sym("b", (), requires_grad=not only_limits)
    c = cx.sym("c", (), requires_grad=True)      # a differentiable tensor the integrand does not use
    if limits == "tensor":
        xl = cx.sym("xl", (), requires_grad=True)
        xu = cx.sym("xu", (), requires_grad=True)
    elif limits == "tensor_nograd":
        xl = cx.sym("xl", ())
        xu = cx.sym("xu", (), requires_grad=True)
    else:
        xl, xu = -0.5, 1.25
    kw = {"n": n}
    if bck_n is not None:
        kw["bck_options"] = {"n": bck_n}

    def f(x, a_, b_):
        return a_ * x ** 4 + b_ * x + a_ * b_ * x * x
    if kind == "pure":
        if unused:
            y = quad(lambda x, a_, b_, c_: f(x, a_, b_), xl, xu, params=(a, b, c), **kw)
        else:
            y = quad(f, xl, xu, params=(a, b), **kw)
        la, lb = a, b
    else:
        mod = Mod(a, c)
        y = quad(mod.forward, xl, xu, params=(b,), **kw)
        la, lb = mod.a, b
        c = mod.unused
    xlt, xut = _as_t(xl), _as_t(xu)
    cx.claim_eq("value = n-point rule", y, _rule(n, xlt, xut, lambda x: f(x, la, lb)))
    g = cx.sym("g", ())
    leaves = ([la, lb] if not only_limits else []) + ([c] if (unused or kind != "pure") and not only_limits else [])
    lim_leaves = [t for t in (xl, xu) if isinstance(t, torch.Tensor) and t.requires_grad]
    got = grads(g * y, leaves + lim_leaves, create_graph=second)
    nb = bck_n if bck_n is not None else n
    # parameters: the rule (with the backward n) applied to df/dtheta, nodes and weights held fixed
    ref = _rule(nb, xlt.detach(), xut.detach(), lambda x: f(x, la, lb))
    if not only_limits:
        exp = grads(g * ref, [la, lb], create_graph=second)
        cx.claim_eq("d/da", got[0], exp[0])
        cx.claim_eq("d/db", got[1], exp[1])
        if len(leaves) > 2:
            cx.claim_eq("unused tensor: zero or absent gradient", got[2], None if got[2] is None else torch.zeros_like(c))
    k = len(leaves)
    for t in lim_leaves:
        if t is xu:
            cx.claim_eq("d/dxu = +g f(xu)", got[k], g * f(xut, la, lb))
        else:
            cx.claim_eq("d/dxl = -g f(xl)", got[k], -g * f(xlt, la, lb))
        k += 1
    if second and not only_limits:
        ga = zero_if_none(got[:2], [la, lb])
        c1 = 0.75 * ga[0] - 1.5 * ga[1]
        c2 = 0.75 * exp[0] - 1.5 * exp[1]
        h1 = grads(c1, [la, lb])
        h2 = grads(c2, [la, lb])
        cx.claim_eq("d2/da", h1[0], h2[0])
        cx.claim_eq("d2/db", h1[1], h2[1])
    return "ok"


def sequence(cx, n1=3, n2=2):
    """two calls with different options in one process: each gradient uses its own call's options"""
    a = cx.sym("a", (), requires_grad=True)
    xu = cx.sym("xu", ())

    def f(x, a_):
        return a_ * x ** 6 + a_ * a_ * x
    for tag, n in (("first", n1), ("second", n2), ("third", n1)):
        y = quad(f, 0.0, xu, params=(a,), n=n)
        got, = grads(y, [a])
        exp, = grads(_rule(n, torch.zeros((), dtype=torch.float64), xu, lambda x: f(x, a)), [a])
        cx.claim_eq("%s call (n=%d): d/da uses this call's rule" % (tag, n), got, exp)
    return "ok"


def infinite(cx, n=2):
    """infinite limits: gradient = the same rule in t applied to df/da * sec^2"""
    a = cx.sym("a", (), requires_grad=True)
    b = cx.sym("b", (), requires_grad=True)

    def f(x, a_, b_):
        return a_ * x * x + b_ * a_
    inf = float("inf")
    y = quad(f, -inf, inf, params=(a, b), n=n)
    g = cx.sym("g", ())
    got = grads(g * y, [a, b])
    tl = torch.atan(torch.tensor(-inf, dtype=torch.float64))
    tu = torch.atan(torch.tensor(inf, dtype=torch.float64))

    def ft(t):
        sec = 1. / torch.cos(t)
        return f(torch.tan(t), a, b) * (sec * sec)
    ref = _rule(n, tl, tu, ft)
    cx.claim_eq("value", y, ref)
    exp = grads(g * ref, [a, b])
    cx.claim_eq("d/da", got[0], exp[0])
    cx.claim_eq("d/db", got[1], exp[1])
    return "ok"


class _QMod(xitorch.EditableModule):
    """object-held tensors where one is derived from the other / the same tensor held twice"""

    def __init__(self, a, b):
        self.a = a
        self.b = b

    def forward(self, x):
        return self.a * self.b * x ** 4 + self.a * x

    def getparamnames(self, methodname, prefix=""):
        return [prefix + "a", prefix + "b"]


def param_graph(cx, kind="derived", holder="explicit", n=2):
    """parameters that are functions of each other or the same tensor twice (explicit or object-held)"""
    k = cx.sym("k", (1,), requires_grad=True)
    xl = cx.sym("xl", (1,), requires_grad=True)
    xu = cx.sym("xu", (1,), requires_grad=True)
    w = cx.sym("w", (1,))
    if holder == "explicit":
        if kind == "derived_only":
            call = lambda a, b: (w * quad(lambda x, b_: b_ * x ** 4 + b_ * b_ * x, xl, xu, params=(b,), n=n)).sum()
        else:
            call = lambda a, b: (w * quad(lambda x, a_, b_: a_ * b_ * x ** 4 + a_ * x, xl, xu, params=(a, b), n=n)).sum()
    else:
        call = lambda a, b: (w * quad(_QMod(a, b).forward, xl, xu, n=n)).sum()
    param_graph_claims(cx, call, k, kind, others=[xl, xu])
    return "ok"


class ModTuple(torch.nn.Module):
    def __init__(self, a):
        super().__init__()
        self.a = torch.nn.Parameter(a)

    def forward(self, x, b):
        return (self.a * x ** 4 + b * x, self.a * b * x * x)


class EdTuple(xitorch.EditableModule):
    def __init__(self, a):
        self.a = a

    def forward(self, x, b):
        return (self.a * x ** 4 + b * x, self.a * b * x * x)

    def getparamnames(self, methodname, prefix=""):
        return [prefix + "a"]


def tuple_module(cx, holder="nn", n=2, second=True):
    """tuple-valued integrand given as a method of an object that holds a differentiable tensor"""
    a0 = cx.sym("a", (1,), requires_grad=True)
    b = cx.sym("b", (1,), requires_grad=True)
    xl = cx.sym("xl", (1,), requires_grad=True)
    xu = cx.sym("xu", (1,), requires_grad=True)
    w = cx.sym("w", (2,))
    if holder == "nn":
        mod = ModTuple(a0)
        a = mod.a
    else:
        mod = EdTuple(a0)
        a = a0
    r = quad(mod.forward, xl, xu, params=(b,), n=n)
    cx.claim_true("tuple in, tuple out", isinstance(r, (tuple, list)) and len(r) == 2)
    loss = w[0] * r[0].sum() + w[1] * r[1].sum()
    ref0 = _rule(n, xl.detach(), xu.detach(), lambda x: a * x ** 4 + b * x)
    ref1 = _rule(n, xl.detach(), xu.detach(), lambda x: a * b * x * x)
    lref = w[0] * ref0.sum() + w[1] * ref1.sum()
    cx.claim_eq("value", loss, lref)
    g = grads(loss, [a, b], create_graph=second)
    gr = grads(lref, [a, b], create_graph=second)
    for nm, x, y in zip(["a (object-held)", "b (explicit)"], g, gr):
        cx.claim_eq("d/d" + nm, x, y)
    if second:
        c1 = sum((0.5 * (i + 1) * gi).sum() for i, gi in enumerate(zero_if_none(g, [a, b])))
        c2 = sum((0.5 * (i + 1) * gi).sum() for i, gi in enumerate(zero_if_none(gr, [a, b])))
        for nm, x, y in zip(["a", "b"], grads(c1, [a, b]), grads(c2, [a, b])):
            cx.claim_eq("d2/d" + nm, x, y)
    return "ok"


def configs(tier):
    cfgs = []

    def add(id_, scenario, opts=None, **params):
        cfgs.append({"id": id_, "scenario": scenario, "params": params, "opts": opts or {}})

    add("grad/n2/tensor/pure/2nd", gradient, n=2, limits="tensor", kind="pure", second=True)
    add("grad/n3/tensor/pure", gradient, n=3, limits="tensor", kind="pure")
    add("grad/n2/bck_n3/tensor/pure", gradient, n=2, bck_n=3, limits="tensor", kind="pure")
    add("grad/n3/bck_n1/numbers/pure/2nd", gradient, n=3, bck_n=1, limits="numbers", kind="pure", second=True)
    add("grad/n2/numbers/pure", gradient, n=2, limits="numbers", kind="pure")
    add("grad/n2/numbers/pure/no_unused", gradient, n=2, limits="numbers", kind="pure", unused=False)
    add("grad/n2/tensor_nograd/pure", gradient, n=2, limits="tensor_nograd", kind="pure")
    add("grad/n2/tensor/module", gradient, n=2, limits="tensor", kind="module")
    add("grad/n2/numbers/module/2nd", gradient, n=2, limits="numbers", kind="module", second=True)
    add("grad/n2/tensor/only_limits", gradient, n=2, limits="tensor", kind="pure", only_limits=True)
    for kind in ("derived", "duplicate", "derived_only"):
        add("param_graph/explicit/%s" % kind, param_graph, kind=kind, holder="explicit")
    add("param_graph/object/derived", param_graph, kind="derived", holder="object")
    add("param_graph/object/duplicate", param_graph, kind="duplicate", holder="object")
    add("tuple_module/nn", tuple_module, holder="nn")
    add("tuple_module/editable", tuple_module, holder="editable")
    add("sequence/n3_n2_n3", sequence, n1=3, n2=2)
    add("sequence/n2_n4_n2", sequence, n1=2, n2=4)
    add("infinite/n2", infinite, n=2)
    if tier == "thorough":
        add("infinite/n3", infinite, n=3, opts={"budget_s": 900})
        add("grad/n3/bck_n2/tensor/module/2nd", gradient, n=3, bck_n=2, limits="tensor", kind="module", second=True,
            opts={"budget_s": 900})
    return cfgs
