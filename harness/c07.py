"""C07 - solve_ivp integrates the ODE with the declared scheme and accuracy."""
import contextlib
from fractions import Fraction

import numpy as np
import torch
import xitorch
from xitorch.integrate import solve_ivp
from xitorch._impls.integrate.ivp import adaptive_rk as ark

import symtorch
from symtorch import S, T, D
from symtorch.jets import J

PROPERTY = "C07"
DEFAULT_OPTS = {"validate": 2, "timeout_ms": 15000, "budget_s": 300, "max_paths": 80}

META = {
    "bounds": "scalar ODE y' = sum_{i+j<=2} c_ij t^i y^j with six symbolic coefficients, symbolic t0 and y0 (a 2-D linear system "
              "for the tuple/concatenated comparison); one or two steps t0 -> t0 +- h -> t0 +- 2h with the step h a formal "
              "power-series variable: Taylor coefficients h^0..h^(p+1) of the result of the REAL steppers (through the public "
              "solve_ivp for euler/rk4/rk38, through rk_step for the embedded pairs) are compared with those of the exact solution "
              "(Picard recursion); step-size controller (_single_step/_step/solve through the public API) on real-valued symbolic "
              "inputs with the error norm replaced by arbitrary positive values and at most 2 rejections",
    "outside": "arbitrary (symbolic) accept/reject schedules of the controller (a fixed family of schedules is enumerated; the state stays symbolic); global error versus atol/rtol on long intervals (needs analysis, not a bounded statement); systems larger than 2; "
               "rounding",
    "assumptions": ["_error_norm stubbed to arbitrary positive symbolic values in the controller scenarios (its input, the stage "
                    "buffer, is checked separately through the error-estimator order claims)",
                    "errnorm ** exponent is an uninterpreted positive function"],
}

POLY = [(i, j) for i in range(3) for j in range(3) if i + j <= 2]


def _rhs(co):
    def f(t, y, *params):
        r = 0
        for (i, j), c in co.items():
            term = c
            for _ in range(i):
                term = term * t
            for _ in range(j):
                term = term * y
            r = r + term
        return r
    return f


def _exact_series(co, t0, y0, sigma, order):
    """Taylor coefficients in h of the exact solution at t0 + sigma*h (Picard recursion in jet arithmetic)"""
    tt = J([t0, S(sigma)])

    def pw(a, k):
        r = J([S(1)])
        for _ in range(k):
            r = r * a
        return r

    def F(y):
        r = J([S(0)])
        for (i, j), c in co.items():
            r = r + J([c]) * pw(tt, i) * pw(y, j)
        return r

    def integ(a, c0):
        # integral over s from 0 to h of a(s) * sigma ds  (t = t0 + sigma*s)
        return J([c0] + [a.c[k] * Fraction(sigma, k + 1) for k in range(J.P)])
    y = J([y0])
    for _ in range(order + 2):
        y = integ(F(y), y0)
    return y


def _jet_tensor(j):
    return T(np.asarray(j, dtype=object).reshape(()), dtype=symtorch.ops.FLOAT)


TEXTBOOK = {
    "euler": ([0.0], [[0.0]], [1.0]),
    "rk4": ([0, .5, .5, 1], [[0, 0, 0, 0], [.5, 0, 0, 0], [0, .5, 0, 0], [0, 0, 1, 0]], [1 / 6, 1 / 3, 1 / 3, 1 / 6]),
    "rk38": ([0, 1 / 3, 2 / 3, 1], [[0, 0, 0, 0], [1 / 3, 0, 0, 0], [-1 / 3, 1, 0, 0], [1, -1, 1, 0]], [1 / 8, 3 / 8, 3 / 8, 1 / 8]),
    "RK23": ([0, 1 / 2, 3 / 4], [[0, 0, 0], [1 / 2, 0, 0], [0, 3 / 4, 0]], [2 / 9, 1 / 3, 4 / 9]),
    "RK45": ([0, 1 / 5, 3 / 10, 4 / 5, 8 / 9, 1],
             [[0, 0, 0, 0, 0, 0], [1 / 5, 0, 0, 0, 0, 0], [3 / 40, 9 / 40, 0, 0, 0, 0], [44 / 45, -56 / 15, 32 / 9, 0, 0, 0],
              [19372 / 6561, -25360 / 2187, 64448 / 6561, -212 / 729, 0, 0],
              [9017 / 3168, -355 / 33, 46732 / 5247, 49 / 176, -5103 / 18656, 0]],
             [35 / 384, 0, 500 / 1113, 125 / 192, -2187 / 6784, 11 / 84]),
}


def _textbook_step(name, f, t, y, h):
    c, a, b = TEXTBOOK[name]
    ks = []
    for j in range(len(c)):
        yy = y + h * sum(a[j][m] * ks[m] for m in range(j)) if j else y
        ks.append(f(t + c[j] * h, yy))
    return y + h * sum(bj * k for bj, k in zip(b, ks))


def _order_numeric(cx, name, step_fn, co_vals, t0, y0, p, sigma, scheme=None, nsteps=1):
    """real-mode counterpart of the coefficient claims (used to confirm a symbolic counterexample on the real float64
    code): the code's step equals the textbook scheme's step, computed independently in the harness"""
    def f(t, y):
        return sum(c * t ** i * y ** j for (i, j), c in co_vals.items())
    worst = 0.0
    for h in (0.1, 0.05):
        t, y = t0, y0
        for _ in range(nsteps):
            y = _textbook_step(scheme, f, t, y, (sigma / nsteps) * h)
            t = t + (sigma / nsteps) * h
        worst = max(worst, abs(float(step_fn(h)) - y))
    ok = worst <= 1e-11 * (1 + abs(y0))
    for nm in (name if isinstance(name, (list, tuple)) else [name]):
        cx.claim_true(nm, ok, detail="max deviation from the textbook %s step: %.3e" % (scheme, worst))


def fixed_order(cx, method="rk4", p=4, sigma=1, nsteps=1):
    """one (or two) steps of the named fixed-step scheme through the public API: exact through h^p, not beyond"""
    names = {ij: "c%d%d" % ij for ij in POLY}
    if cx.mode == "sym":
        J.P = p + 1
        co = {ij: cx.scalar(names[ij]) for ij in POLY}
        t0 = cx.scalar("t0")
        y0 = cx.scalar("y0")
        f = _rhs({ij: _jet_tensor(J([c])) for ij, c in co.items()})
        ts = T(np.array([J([t0, S(sigma * k)]) for k in range(nsteps + 1)], dtype=object), dtype=symtorch.ops.FLOAT)
        y0t = T(np.array([J([y0])], dtype=object), dtype=symtorch.ops.FLOAT)
        with torch.no_grad():
            yt = solve_ivp(f, ts, y0t, method=method)
        cx.claim_eq("y(ts[0]) = y0", yt[0], y0t)
        got = yt._d[nsteps, 0]
        exact = _exact_series(co, t0, y0, sigma * nsteps, p + 1)
        for k in range(p + 1):
            cx.claim("coefficient of h^%d equals the exact solution's" % k, got.c[k] == exact.c[k])
        # the scheme is of order exactly p: the next coefficient differs for some ODE
        cx.reach("order is not higher than %d" % p, got.c[p + 1] != exact.c[p + 1])
        if nsteps == 2:
            # prefix independence: the value at ts[1] does not depend on ts[2]
            with torch.no_grad():
                yshort = solve_ivp(f, ts[:2], y0t, method=method)
            cx.claim_eq("value at ts[1] independent of later time points", yt[1], yshort[1])
        return "ok"
    co_vals = {ij: float(cx.scalar(names[ij])) for ij in POLY}
    t0 = float(cx.scalar("t0"))
    y0 = float(cx.scalar("y0"))
    fn = _rhs({ij: cx.const(torch.tensor(v, dtype=torch.float64)) for ij, v in co_vals.items()})

    def step(h):
        ts = cx.const(torch.tensor([t0 + sigma * h * k for k in range(nsteps + 1)], dtype=torch.float64))
        with torch.no_grad():
            return solve_ivp(fn, ts, cx.const(torch.tensor([y0], dtype=torch.float64)), method=method)[nsteps, 0]
    _order_numeric(cx, ["coefficient of h^%d equals the exact solution's" % k for k in range(p + 1)], step, co_vals, t0, y0, p,
                   sigma * nsteps, scheme=method, nsteps=nsteps)
    return "ok"


def embedded_pair(cx, cls="RK45", p=5, est=4):
    """real rk_step on series: ynew exact through h^p; error estimate h*K^T*E vanishes through h^est and not at h^(est+1);
    FSAL: the stored last stage is f(t+h, ynew)"""
    solver_cls = getattr(ark, cls)
    names = {ij: "c%d%d" % ij for ij in POLY}
    if cx.mode == "sym":
        J.P = p + 1
        co = {ij: cx.scalar(names[ij]) for ij in POLY}
        t0 = cx.scalar("t0")
        y0 = cx.scalar("y0")
        f = _rhs({ij: _jet_tensor(J([c])) for ij, c in co.items()})
        func = lambda t, y: f(t, y)
        n_st = solver_cls.n_stages
        K = T(np.array([[J([S(0)])] for _ in range(n_st + 1)], dtype=object), dtype=symtorch.ops.FLOAT)
        tj = _jet_tensor(J([t0]))
        yj = T(np.array([J([y0])], dtype=object), dtype=symtorch.ops.FLOAT)
        hj = _jet_tensor(J([S(0), S(1)]))
        with torch.no_grad():
            f0 = func(tj, yj)
            A, B, C, E = [x.to(torch.float64) for x in (solver_cls.A, solver_cls.B, solver_cls.C, solver_cls.E)]
            ynew, fnew = ark.rk_step(func, tj, yj, f0, hj, (A, B, C, K))
            err = torch.matmul(K.T, E) * hj
            exact = _exact_series(co, t0, y0, 1, p + 1)
            got = ynew._d[0]
            for k in range(p + 1):
                cx.claim("ynew: coefficient of h^%d exact" % k, got.c[k] == exact.c[k])
            cx.reach("ynew is not of higher order than %d" % p, got.c[p + 1] != exact.c[p + 1])
            e = err._d[0]
            for k in range(est + 1):
                cx.claim("error estimate has no h^%d term" % k, e.c[k] == 0)
            cx.reach("error estimate has an h^%d term" % (est + 1), e.c[est + 1] != 0)
            cx.claim_eq("FSAL: last stage = f(t+h, ynew)", K[-1], func(tj + hj, ynew))
            cx.claim_eq("returned fnew = f(t+h, ynew)", fnew, func(tj + hj, ynew))
        return "ok"
    co_vals = {ij: float(cx.scalar(names[ij])) for ij in POLY}
    t0 = float(cx.scalar("t0"))
    y0 = float(cx.scalar("y0"))
    fn = _rhs({ij: cx.const(torch.tensor(v, dtype=torch.float64)) for ij, v in co_vals.items()})
    func = lambda t, y: fn(t, y)

    def step(h):
        K = cx.const(torch.zeros((solver_cls.n_stages + 1, 1), dtype=torch.float64))
        t = cx.const(torch.tensor(t0, dtype=torch.float64))
        y = cx.const(torch.tensor([y0], dtype=torch.float64))
        hh = cx.const(torch.tensor(h, dtype=torch.float64))
        A, B, C, E = [x.to(torch.float64) for x in (solver_cls.A, solver_cls.B, solver_cls.C, solver_cls.E)]
        with torch.no_grad():
            ynew, fnew = ark.rk_step(func, t, y, func(t, y), hh, (A, B, C, K))
        return ynew[0]
    _order_numeric(cx, ["ynew: coefficient of h^%d exact" % k for k in range(p + 1)], step, co_vals, t0, y0, p, 1, scheme=cls)
    # error estimate and FSAL against the textbook embedded weights
    ETXT = {"RK23": [5 / 72, -1 / 12, -1 / 9, 1 / 8],
            "RK45": [-71 / 57600, 0, 71 / 16695, -71 / 1920, 17253 / 339200, -22 / 525, 1 / 40]}[cls]
    h = 0.1
    K = cx.const(torch.zeros((solver_cls.n_stages + 1, 1), dtype=torch.float64))
    t = cx.const(torch.tensor(t0, dtype=torch.float64))
    y = cx.const(torch.tensor([y0], dtype=torch.float64))
    hh = cx.const(torch.tensor(h, dtype=torch.float64))
    A, B, C, E = [x.to(torch.float64) for x in (solver_cls.A, solver_cls.B, solver_cls.C, solver_cls.E)]
    with torch.no_grad():
        ynew, fnew = ark.rk_step(func, t, y, func(t, y), hh, (A, B, C, K))
        err = float((torch.matmul(K.T, E) * hh)[0])
        ref = h * sum(e * float(K[j, 0]) for j, e in enumerate(ETXT))
        okE = abs(err - ref) <= 1e-13 * (1 + abs(ref)) and all(abs(float(E[j]) - ETXT[j]) <= 1e-15 for j in range(len(ETXT)))
        for k in range(est + 1):
            cx.claim_true("error estimate has no h^%d term" % k, okE, detail="estimator weights differ from the textbook pair")
        cx.claim_eq("FSAL: last stage = f(t+h, ynew)", K[-1], func(t + hh, ynew))
        cx.claim_eq("returned fnew = f(t+h, ynew)", fnew, func(t + hh, ynew))
    return "ok"


def controller(cx, cls="rk45", reverse=False, npoints=3, schedule=(0.5, 0.5)):
    """step-size controller through the public API on a fixed linear ODE, with the error norm replaced by ARBITRARY positive
    values (symbolic): every accept/reject schedule of up to 2 rejections per interval is explored.  Claims: accepted
    attempts had scaled error < 1; requested times are hit exactly and t increases; every attempted step (accepted or not)
    started from the true derivative f(t, y) of its starting point, i.e. rejected attempts leave no trace."""
    solver_cls = {"rk45": ark.RK45, "rk23": ark.RK23}[cls]
    c00, c01, c10 = 0.5, -0.75, 0.25
    t0v, dtv = 0.25, 0.5
    sgn = -1 if reverse else 1
    ts = cx.const(torch.tensor([t0v + sgn * dtv * k for k in range(npoints)], dtype=torch.float64))
    y0 = cx.sym("y0", (1,))

    tseen = []

    def fwrap(t, y):
        tseen.append(t)
        return c00 + c01 * y + c10 * t
    # the scaled error norms of the successive step attempts are prescribed (concrete schedule of accepts/rejects);
    # the state y0 stays symbolic
    errs = list(schedule)
    log = {"calls": 0, "attempts": [], "errs": []}
    orig_norm = solver_cls._error_norm
    orig_step = ark.rk_step

    def fake_norm(self, K, h):
        if bool(h == 0):
            # a zero-length step (taken when the previous step landed exactly on the requested time) has zero error
            log["errs"].append(0.0)
            return h * 0
        k = log["calls"]
        log["calls"] += 1
        if k >= 60:
            raise symtorch.PathAbort("more than 60 step attempts")
        e = errs[k] if k < len(errs) else 0.5      # after the prescribed schedule every attempt is accepted
        log["errs"].append(e)
        return (h * 0 + 1) * e

    def logged_step(func, t, y, f, h, abck):
        ynew, fnew = orig_step(func, t, y, f, h, abck)
        log["attempts"].append((func, t.clone(), y.clone(), f.clone(), h.clone(), ynew.clone()))
        return ynew, fnew
    solver_cls._error_norm = fake_norm
    ark.rk_step = logged_step
    try:
        with torch.no_grad():
            yt = solve_ivp(fwrap, ts, y0, method=cls, atol=1.0, rtol=0.0)
        # the caller's function is only ever evaluated inside the integration interval (in the caller's own time variable)
        lo_t, hi_t = float(min(t0v, t0v + sgn * dtv * (npoints - 1))), float(max(t0v, t0v + sgn * dtv * (npoints - 1)))
        inside = True
        for t in tseen:
            inside = inside and bool(t >= lo_t - 1e-9) and bool(t <= hi_t + 1e-9)
        cx.claim_true("the right-hand side is only evaluated at times inside the integration interval", inside,
                      detail="interval [%g, %g], %d evaluations" % (lo_t, hi_t, len(tseen)))
        if reverse:
            # time reversal: integrating towards decreasing t is the mirrored problem dy/ds = -f(-s, y) on increasing s = -t
            main_log = dict(log)
            log["calls"], log["attempts"], log["errs"] = 0, [], []
            with torch.no_grad():
                ym = solve_ivp(lambda s_, y: -(c00 + c01 * y + c10 * (-s_)), -ts, y0, method=cls, atol=1.0, rtol=0.0)
            log.update(main_log)
            cx.claim_eq("decreasing ts = the mirrored problem on increasing -ts (same controller schedule)", yt, ym)
    finally:
        solver_cls._error_norm = orig_norm
        ark.rk_step = orig_step
    cx.claim_eq("y(ts[0]) = y0", yt[0], y0)
    n_attempts = log["calls"]
    if n_attempts > 0:
        cx.claim_true("the last attempt (accepted) had scaled error < 1", log["errs"][-1] < 1)
    A, B, C, E = [x.to(torch.float64) for x in (solver_cls.A, solver_cls.B, solver_cls.C, solver_cls.E)]
    for k, (func, t, y, f, h, ynew) in enumerate(log["attempts"]):
        with torch.no_grad():
            cx.claim_eq("attempt %d starts from f(t, y)" % k, f, func(t, y))
            K = cx.const(torch.zeros((solver_cls.n_stages + 1, 1), dtype=torch.float64))
            yref, _ = orig_step(func, t, y, func(t, y), h, (A, B, C, K))
            cx.claim_eq("attempt %d = one clean embedded step" % k, ynew, yref)
            cx.claim_true("attempt %d: non-negative step" % k, bool(h >= 0))
    return "%d attempts" % n_attempts


def controller_scale(cx, cls="rk45", reverse=False, atol=1.0, rtol=0.5):
    """accept/reject decision of one controller step (_single_step of the real solver object, set up through its own setup()
    on a symbolic initial condition) started from an ARBITRARY symbolic state that is not the initial condition; the raw
    error estimate of the first attempt is an arbitrary positive symbol.  The real code divides by its tolerance scale and
    compares with 1 (this forks in the explorer).  Claim: accepted <=> estimate < atol + rtol*max(|y at the start of THIS
    step|, |y_new|); a rejected attempt is retried from the same state with a step of at least min_factor times the rejected one
    (that it is also shorter needs monotonicity of x**p, which the uninterpreted power does not have: not claimed)."""
    solver_cls = {"rk45": ark.RK45, "rk23": ark.RK23}[cls]
    c00, c01, c10 = 0.5, -0.75, 0.25
    sgn = -1 if reverse else 1
    ts = cx.const(torch.tensor([0.25, 0.25 + sgn * 4.0], dtype=torch.float64))
    yinit = cx.sym("yinit", (1,), lo=-4, hi=4)
    ystart = cx.sym("ystart", (1,), lo=-4, hi=4)
    e0 = cx.scalar("e0", lo=0.125, hi=4, positive=True)

    def fwrap(t, y):
        return c00 + c01 * y + c10 * t
    log = {"calls": 0, "attempts": []}
    orig_norm = solver_cls._error_norm
    orig_step = ark.rk_step

    def fake_norm(self, K, h):
        k = log["calls"]
        log["calls"] += 1
        if k >= 8:
            raise symtorch.PathAbort("more than 8 step attempts")
        return (h * 0 + 1) * (e0 if k == 0 else atol * 0.125)   # later attempts: estimate < atol <= scale, always accepted

    def logged_step(func, t, y, f, h, abck):
        ynew, fnew = orig_step(func, t, y, f, h, abck)
        log["attempts"].append((y, y.clone(), ynew.clone(), h.clone()))
        return ynew, fnew
    solver = solver_cls(atol=atol, rtol=rtol)
    solver.setup(fwrap, ts, yinit, ())
    tstart = solver.ts[0] + 0.5
    t1 = solver.ts[1]
    h = cx.const(torch.tensor(0.25, dtype=torch.float64))
    solver_cls._error_norm = fake_norm
    ark.rk_step = logged_step
    try:
        with torch.no_grad():
            (fnew, tnew, ynew, hnew), achieved = solver._single_step((solver.func(tstart, ystart), tstart, ystart, h), t1)
    finally:
        solver_cls._error_norm = orig_norm
        ark.rk_step = orig_step
    att = log["attempts"]
    yobj, y, yn, h0 = att[0]
    accepted = len(att) == 1
    scale = atol + torch.max(y.norm(), yn.norm()) * rtol
    cx.claim_eq("the step starts from the state it was given", y, ystart)
    if accepted:
        cx.claim("accepted => estimate < atol + rtol*max(|y_start|,|y_new|)", e0 < scale)
    else:
        cx.claim("rejected => estimate >= atol + rtol*max(|y_start|,|y_new|)", e0 >= scale)
        cx.claim_true("a rejected attempt is retried from the same state", att[1][0] is yobj)
        cx.claim("the retry step is at least min_factor times the rejected one", att[1][3] >= h0 * 0.2)
    cx.claim_eq("returned state is the last attempt's", ynew, att[-1][2])
    return "%d attempts, %s" % (len(att), "accepted" if accepted else "rejected")


def tableau_state(cx, cls="rk45"):
    """the embedded pair is the stated one for EVERY call: a solve in another precision (float32) must not change the tableau
    that later float64 solves use (class-level state), and a float64 solve after it must give the result of a fresh one"""
    solver_cls = {"rk45": ark.RK45, "rk23": ark.RK23}[cls]
    before = {nm: getattr(solver_cls, nm).clone() for nm in "ABCE"}
    y0 = cx.sym("y0", (1,))
    ts64 = cx.const(torch.tensor([0.0, 0.25], dtype=torch.float64))
    f = lambda t, y: -0.5 * y + t
    orig = solver_cls._error_norm
    solver_cls._error_norm = lambda self, K, h: h * 0 + 0.5      # every step accepted (the controller is checked elsewhere)
    try:
        with torch.no_grad():
            first = solve_ivp(f, ts64, y0, method=cls, atol=1.0, rtol=0.0)
            ts32 = torch.tensor([0.0, 0.25], dtype=torch.float32)
            solve_ivp(lambda t, y: -y, ts32, torch.tensor([1.0], dtype=torch.float32), method=cls, atol=1.0, rtol=0.0)
            again = solve_ivp(f, ts64, y0, method=cls, atol=1.0, rtol=0.0)
    finally:
        solver_cls._error_norm = orig
    for nm in "ABCE":
        now = getattr(solver_cls, nm)
        cx.claim_true("class tableau %s is unchanged (dtype and values) after a float32 solve" % nm,
                      now.dtype == before[nm].dtype and bool(torch.equal(now, before[nm])), detail="%s" % now.dtype)
    cx.claim_eq("the float64 solve after a float32 one equals the one before it", again, first, tol=1e-13)
    cx.claim_true("result dtype", again.dtype == torch.float64)
    return "ok"


def tuple_state(cx, method="rk4"):
    """a list-of-tensors state gives the same result as the concatenated tensor state"""
    A = cx.sym("A", (2, 2))
    t0 = cx.scalar("t0")
    dt = cx.scalar("dt", lo=0.25, hi=1, positive=True)
    ya = cx.sym("ya", (1,))
    yb = cx.sym("yb", (1,))
    ts = cx.from_array(np.array([t0, t0 + dt, t0 + dt * 2], dtype=object))

    def f_cat(t, y):
        return torch.matmul(A, y) + t

    def f_tup(t, ys):
        y = torch.cat(ys)
        r = torch.matmul(A, y) + t
        return (r[:1], r[1:])
    with torch.no_grad():
        ycat = solve_ivp(f_cat, ts, torch.cat([ya, yb]), method=method)
        ytup = solve_ivp(f_tup, ts, (ya, yb), method=method)
    cx.claim_true("tuple in, tuple out", isinstance(ytup, (tuple, list)) and len(ytup) == 2)
    cx.claim_eq("component 0", ytup[0], ycat[:, :1])
    cx.claim_eq("component 1", ytup[1], ycat[:, 1:])
    cx.claim_eq("y(ts[0]) = y0", ycat[0], torch.cat([ya, yb]))
    return "ok"


def configs(tier):
    cfgs = []

    def add(id_, scenario, opts=None, **params):
        cfgs.append({"id": id_, "scenario": scenario, "params": params, "opts": opts or {}})

    for method, p in (("euler", 1), ("rk4", 4), ("rk38", 4)):
        add("order/%s/forward" % method, fixed_order, method=method, p=p, sigma=1)
        add("order/%s/backward_in_time" % method, fixed_order, method=method, p=p, sigma=-1)
    add("order/euler/two_steps", fixed_order, method="euler", p=1, sigma=1, nsteps=2)
    add("order/rk4/two_steps", fixed_order, method="rk4", p=4, sigma=1, nsteps=2)
    add("pair/RK23", embedded_pair, cls="RK23", p=3, est=2)
    add("pair/RK45", embedded_pair, cls="RK45", p=5, est=4)
    schedules = {"accept_all": (0.5, 0.25, 0.5, 0.5), "reject_first": (2.0, 0.5, 0.5, 0.5, 0.5, 0.5),
                 "reject_second_interval": (0.5, 3.0, 0.5, 0.5, 0.5, 0.5, 0.5), "reject_twice": (0.5, 2.5, 1.5, 0.25, 0.5, 0.5, 0.5, 0.5),
                 "tiny_error_grows_step": (1e-6, 0.5, 0.5, 0.5)}
    for cls in ("rk45", "rk23"):
        for nm, sch in schedules.items():
            add("controller/%s/increasing/%s" % (cls, nm), controller, cls=cls, schedule=sch)
        add("controller/%s/decreasing/reject_second_interval" % cls, controller, cls=cls, reverse=True,
            schedule=schedules["reject_second_interval"])
    for cls in ("rk45", "rk23"):
        add("controller_scale/%s/increasing" % cls, controller_scale, cls=cls, opts={"max_paths": 60, "budget_s": 200})
    add("controller_scale/rk45/decreasing", controller_scale, cls="rk45", reverse=True, opts={"max_paths": 60, "budget_s": 200})
    add("tableau_state/rk45", tableau_state, cls="rk45")
    add("tableau_state/rk23", tableau_state, cls="rk23")
    add("tuple_state/rk4", tuple_state, method="rk4")
    add("tuple_state/euler", tuple_state, method="euler")
    if tier == "thorough":
        add("controller/rk45/four_points", controller, cls="rk45", npoints=4,
            schedule=(0.5, 2.0, 0.5, 0.5, 3.0, 2.0, 0.5, 0.5, 0.5, 0.5, 0.5, 0.5))
        add("tuple_state/rk38", tuple_state, method="rk38")
    return cfgs
