"""Uninterpreted user functions: the solver quantifies over ALL smooth scalar functions F (with derivative DF).
In the concrete modes the same object is a polynomial: a seeded one for translator validation, or the Hermite
interpolant of the solver's model (the finite table of F/DF values it chose) when a counterexample is replayed."""
import numpy as np
import torch
import z3

import symtorch
from symtorch import S, T, D, _r, Explorer
from symtorch.core import ufun


class UF:
    def __init__(self, cx, name="F"):
        self.cx = cx
        self.name = name
        self.calls = 0
        if cx.mode == "sym":
            cx.ex.uses_uf = True
            cx.uf_tables.setdefault(name, [])
            F = ufun(name, 1)
            DFn = ufun("D" + name, 1)
            DDFn = ufun("DD" + name, 1)
            table = cx.uf_tables[name]

            class _D1(torch.autograd.Function):
                @staticmethod
                def forward(ctx, x):
                    ctx.save_for_backward(x)
                    return T(np.frompyfunc(lambda e: S(DFn(_r(e))), 1, 1)(D(x)), dtype=symtorch.ops.FLOAT)

                @staticmethod
                def backward(ctx, g):
                    x, = ctx.saved_tensors
                    return g * T(np.frompyfunc(lambda e: S(DDFn(_r(e))), 1, 1)(D(x)), dtype=symtorch.ops.FLOAT)

            class _F(torch.autograd.Function):
                @staticmethod
                def forward(ctx, x):
                    ctx.save_for_backward(x)
                    d = D(x)
                    out = np.empty(d.shape, dtype=object)
                    for idx in np.ndindex(d.shape):
                        a = _r(d[idx])
                        out[idx] = S(F(a))
                        table.append(((d[idx],), S(F(a)), (S(DFn(a)),)))
                    return T(out, dtype=symtorch.ops.FLOAT)

                @staticmethod
                def backward(ctx, g):
                    x, = ctx.saved_tensors
                    return g * _D1.apply(x)
            self._apply = _F.apply
        else:
            tab = (cx.values.get("__uf__") or {}).get(name)
            if tab:
                self._poly = _hermite(tab)
            else:
                rng = cx.rng
                # default: F(y) = c0 + c1*y + c2*y^2 with seeded coefficients (c1 away from zero)
                c = [rng.randint(-8, 8) / 8.0, (rng.randint(4, 12) / 8.0) * (1 if rng.random() < 0.5 else -1),
                     rng.randint(-4, 4) / 8.0]
                self._poly = lambda y: c[0] + c[1] * y + c[2] * y * y

    def __call__(self, y):
        self.calls += 1
        if self.cx.mode == "sym":
            return self._apply(y)
        return self._poly(y)


def _hermite(tab):
    """torch-differentiable Hermite interpolant through (x_i, f_i, df_i)"""
    pts = []
    for row in tab:
        x = float(row["x"][0])
        f = float(row["f"])
        df = float(row.get("df", [0.0])[0])
        if any(abs(x - p[0]) < 1e-12 for p in pts):
            continue
        pts.append((x, f, df))
    xs = [p[0] for p in pts]

    def poly(y):
        total = 0
        for i, (xi, fi, dfi) in enumerate(pts):
            li = 1
            dli = 0.0
            for j, xj in enumerate(xs):
                if j != i:
                    li = li * ((y - xj) / (xi - xj))
                    dli += 1.0 / (xi - xj)
            li2 = li * li
            total = total + (fi * (1 - 2 * dli * (y - xi)) + dfi * (y - xi)) * li2
        return total
    return poly
