"""C10 - functionals never leave the caller's objects modified, even on failure."""
import numpy as np
import torch
import xitorch
from xitorch.optimize import rootfinder, equilibrium, minimize
from xitorch.integrate import solve_ivp, quad, mcquad
from xitorch.grad import jac
from xitorch.linalg import solve
from xitorch import LinearOperator
from xitorch.debug.modes import is_debug_enabled, set_debug_mode

PROPERTY = "C10"
DEFAULT_OPTS = {"validate": 3, "timeout_ms": 5000, "budget_s": 300, "max_paths": 400}

META = {
    "level": "fault_enumeration",
    "bounds": "tiny concrete problems (the numerics are irrelevant here); the index k of the evaluation at which the user's function "
              "(or the operator's _mv) raises is a SYMBOLIC selector: the explorer forks over every k from the first evaluation to "
              "'never', across forward, backward and graph-recording backward + second backward; function kinds: nn.Module (with a "
              "frozen parameter registered after a trainable one), EditableModule with derived, aliased, list- and dict-held tensors; "
              "functionals rootfinder, equilibrium, minimize, solve_ivp, quad, mcquad, jac products, solve with a user operator",
    "outside": "process-level failures (signals, out-of-memory), threads",
    "assumptions": ["per-path check is concrete: object identity, Parameter registration and order, debug flag; the solver's role is "
                    "the exhaustive enumeration of crash points (honest note: this is fault enumeration driven by the path explorer)"],
}


class Boom(Exception):
    pass


class Counter:
    def __init__(self):
        self.n = 0
        self.k = None

    def tick(self):
        self.n += 1
        if self.k is not None and self.n == self.k:
            raise Boom("injected failure at evaluation %d" % self.n)


class NN(torch.nn.Module):
    def __init__(self, ctr, a, frozen, b):
        super().__init__()
        self.ctr = ctr
        self.a = torch.nn.Parameter(a)
        self.frozen = torch.nn.Parameter(frozen, requires_grad=False)   # frozen parameter registered between trainable ones
        self.b = torch.nn.Parameter(b)

    def forward(self, y, *extra):
        self.ctr.tick()
        return self.a * y * y * 0.1 + self.b * y * 0.3 - self.frozen

    def scalar(self, y, *extra):
        self.ctr.tick()
        return (self.a * y * y * y * 0.1 + self.b * y * y * 0.3 + self.frozen * y).sum()

    def rhs(self, t, y, *extra):
        self.ctr.tick()
        return -self.a * y + self.b * 0.1 + self.frozen * t * 0


class Ed(xitorch.EditableModule):
    def __init__(self, ctr, a, b):
        self.ctr = ctr
        self.a1 = a
        self.a2 = a
        self.b2 = b * 2
        self.lst = [b * 0.5, a * 0]
        self.dct = {"k": b * 0 + 0.25}

    def forward(self, y, *extra):
        self.ctr.tick()
        return (self.a1 + self.a2) * 0.05 * y * y + self.b2 * 0.15 * y - self.dct["k"] + self.lst[0] * 0 + self.lst[1]

    def scalar(self, y, *extra):
        self.ctr.tick()
        return ((self.a1 + self.a2) * 0.05 * y * y * y + self.b2 * 0.15 * y * y + self.dct["k"] * y + self.lst[0] * 0).sum()

    def rhs(self, t, y, *extra):
        self.ctr.tick()
        return -(self.a1 + self.a2) * 0.5 * y + self.b2 * 0.05 + self.lst[0] * 0 + self.dct["k"] * t * 0

    def getparamnames(self, methodname, prefix=""):
        return [prefix + "a1", prefix + "a2", prefix + "b2", prefix + "lst[0]", prefix + "lst[1]", prefix + "dct['k']"]


class InnerNet(torch.nn.Module):
    def __init__(self, a, frozen, b):
        super().__init__()
        self.a = torch.nn.Parameter(a)
        self.frozen = torch.nn.Parameter(frozen, requires_grad=False)   # frozen parameter after a trainable one
        self.b = torch.nn.Parameter(b)


class EdNN(xitorch.EditableModule):
    """an nn.Module held by an EditableModule whose getparamnames lists the module's parameters"""
    def __init__(self, ctr, a, frozen, b):
        self.ctr = ctr
        self.module = InnerNet(a, frozen, b)

    def forward(self, y, *extra):
        self.ctr.tick()
        m = self.module
        return m.a * y * y * 0.1 + m.b * y * 0.3 - m.frozen

    def scalar(self, y, *extra):
        self.ctr.tick()
        m = self.module
        return (m.a * y * y * y * 0.1 + m.b * y * y * 0.3 + m.frozen * y).sum()

    def rhs(self, t, y, *extra):
        self.ctr.tick()
        m = self.module
        return -m.a * y + m.b * 0.1 + m.frozen * t * 0

    def getparamnames(self, methodname, prefix=""):
        return [name for name, _ in self.module.named_parameters(prefix=prefix + "module")]


def snapshot(obj):
    if isinstance(obj, EdNN):
        m = obj.module
        return {"module": id(m), "names": [n for n, _ in m.named_parameters()], "ids": [id(p) for _, p in m.named_parameters()],
                "types": [type(p).__name__ for _, p in m.named_parameters()],
                "attrs": [id(getattr(m, n)) for n in ("a", "frozen", "b")], "state_dict": list(m.state_dict().keys())}
    if isinstance(obj, torch.nn.Module):
        return {"names": [n for n, _ in obj.named_parameters()],
                "ids": [id(p) for _, p in obj.named_parameters()],
                "types": [type(p).__name__ for _, p in obj.named_parameters()],
                "reqgrad": [p.requires_grad for _, p in obj.named_parameters()],
                "attrs": [id(getattr(obj, n)) for n in ("a", "frozen", "b")],
                "state_dict": list(obj.state_dict().keys())}
    if isinstance(obj, Ed):
        return {"ids": [id(obj.a1), id(obj.a2), id(obj.b2), id(obj.lst), id(obj.lst[0]), id(obj.lst[1]), id(obj.dct), id(obj.dct["k"])],
                "len": (len(obj.lst), sorted(obj.dct.keys())), "alias": obj.a1 is obj.a2}
    if isinstance(obj, LinearOperator):
        return {"ids": [id(p) for p in obj.getlinopparams()], "attr": id(obj.m_)}
    raise TypeError(type(obj))


def _make(kind, cx, ctr):
    a = cx.const(torch.tensor([0.75], dtype=torch.float64)).requires_grad_()
    b = cx.const(torch.tensor([0.5], dtype=torch.float64)).requires_grad_()
    fz = cx.const(torch.tensor([0.25], dtype=torch.float64))
    if kind == "nn":
        return NN(ctr, a, fz, b)
    if kind == "editable_nn":
        return EdNN(ctr, a, fz, b)
    return Ed(ctr, a, b)


def _use(functional, obj, cx):
    """run the functional forward, backward, and graph-recording backward + second backward"""
    one = cx.const(torch.tensor([0.5], dtype=torch.float64))
    if functional == "rootfinder":
        y = rootfinder(obj.forward, one, method="broyden1", maxiter=3, alpha=-1.0)
    elif functional == "equilibrium":
        y = equilibrium(obj.forward, one, method="anderson_acc", maxiter=4)
    elif functional == "minimize":
        y = minimize(obj.scalar, one, method="gd", maxiter=3, step=0.1)
    elif functional == "solve_ivp":
        ts = cx.const(torch.tensor([0.0, 0.25, 0.5], dtype=torch.float64))
        y = solve_ivp(obj.rhs, ts, one, method="rk4")
    elif functional == "quad":
        y = quad(obj.forward, 0.0, 1.0, n=2)
    elif functional == "mcquad":
        y = mcquad(obj.forward, lambda x: (-x * x).sum(), one, method="mhcustom", nsamples=2, nburnout=1,
                   custom_step=lambda x: x * 0.5 + 0.25)
    elif functional == "jac":
        yy = one.clone().requires_grad_()
        op = jac(obj.forward, (yy,), idxs=0)
        y = op.mv(one) + op.rmv(one)
    else:
        raise KeyError(functional)
    if isinstance(obj, EdNN):
        leaves = [p for p in obj.module.parameters() if p.requires_grad]
    else:
        leaves = [p for p in (obj.parameters() if isinstance(obj, torch.nn.Module) else [obj.a1, obj.b2]) if p.requires_grad]
    import warnings
    g = torch.autograd.grad(y.sum(), leaves, create_graph=True, allow_unused=True)
    g = [x for x in g if x is not None and x.requires_grad]
    if g:
        torch.autograd.grad(sum(x.sum() for x in g), leaves, allow_unused=True)
    return y


def crash(cx, functional="rootfinder", kind="nn", debug=False):
    import warnings
    prev_debug = is_debug_enabled()
    set_debug_mode(debug)
    try:
        ctr = Counter()
        obj = _make(kind, cx, ctr)
        before = snapshot(obj)
        with warnings.catch_warnings():
            warnings.simplefilter("ignore")
            _use(functional, obj, cx)           # reference run: counts the evaluations
        total = ctr.n
        cx.claim_true("state unchanged after a complete run", snapshot(obj) == before, detail="%s -> %s" % (before, snapshot(obj)))
        cx.claim_true("debug flag unchanged after a complete run", is_debug_enabled() == debug)
        # crash at evaluation k (k = 1..total), chosen by the explorer (debug mode is exercised on the real code only, where
        # every k is run in turn)
        ks = list(range(1, total + 1)) if debug else [cx.choose(total, "crash_at") + 1]
        for k in ks:
            ctr2 = Counter()
            ctr2.k = k
            obj2 = _make(kind, cx, ctr2)
            before2 = snapshot(obj2)
            raised = False
            with warnings.catch_warnings():
                warnings.simplefilter("ignore")
                try:
                    _use(functional, obj2, cx)
                except Boom:
                    raised = True
            cx.claim_true("the injected failure propagates to the caller", raised, detail="k=%d of %d" % (k, total))
            cx.claim_true("state unchanged after a failure", snapshot(obj2) == before2,
                          detail="k=%d of %d: %s -> %s" % (k, total, before2, snapshot(obj2)))
            cx.claim_true("debug flag unchanged after a failure", is_debug_enabled() == debug)
            # the object is still usable and gives the same value as a fresh one
            ctr2.k = None
            with warnings.catch_warnings():
                warnings.simplefilter("ignore")
                yA = _use(functional, obj2, cx)
                yB = _use(functional, _make(kind, cx, Counter()), cx)
            cx.claim_eq("the object still computes the same result after the failure", yA.detach(), yB.detach())
        return "crash@%d/%d" % (k, total)
    finally:
        set_debug_mode(prev_debug)


def debug_contexts(cx, functional="quad", kind="editable"):
    """enable_debug()/disable_debug() blocks, nested up to three deep in every combination, entered with either previous
    value of the flag, around a functional call that completes or whose user function raises at an evaluation chosen by the
    explorer: on leaving each block the flag has the value it had on entering THAT block (last-in-first-out), and inside the
    block it has the requested value"""
    import itertools
    import warnings
    from xitorch.debug.modes import enable_debug, disable_debug
    seqs = [q for n in (1, 2, 3) for q in itertools.product("ed", repeat=n)]
    prev0 = is_debug_enabled()
    try:
        prev = bool(cx.choose(2, "previous_flag"))
        seq = seqs[cx.choose(len(seqs), "nesting")]
        set_debug_mode(prev)
        ctr = Counter()
        ctr.k = [None, 1, 2][cx.choose(3, "crash_at")]
        obj = _make(kind, cx, ctr)
        before = snapshot(obj)
        ok_inside, ok_after = [], []

        def enter(level):
            if level == len(seq):
                # the functional runs in non-debug blocks only (debug mode prints through float formatting: real-only, see
                # aux_real_only); in a debug block the body just raises or not
                if not is_debug_enabled():
                    with warnings.catch_warnings():
                        warnings.simplefilter("ignore")
                        _use(functional, obj, cx)
                elif ctr.k is not None:
                    raise Boom()
                return
            outer = is_debug_enabled()
            want = seq[level] == "e"
            try:
                with (enable_debug() if want else disable_debug()):
                    ok_inside.append(is_debug_enabled() == want)
                    enter(level + 1)
                    ok_inside.append(is_debug_enabled() == want)
            finally:
                ok_after.append(is_debug_enabled() == outer)
        raised = False
        try:
            enter(0)
        except Boom:
            raised = True
        tag = "prev=%s nesting=%s crash=%s raised=%s" % (prev, "".join(seq), ctr.k, raised)
        cx.claim_true("inside a block the flag has the requested value", all(ok_inside), detail=tag)
        cx.claim_true("leaving a block restores the value the flag had on entering it (LIFO)", all(ok_after) and
                      len(ok_after) == len(seq), detail=tag + " " + str(ok_after))
        cx.claim_true("after all blocks the flag has its previous value", is_debug_enabled() == prev, detail=tag)
        cx.claim_true("object state unchanged", snapshot(obj) == before)
        return tag
    finally:
        set_debug_mode(prev0)


class Op(LinearOperator):
    def __init__(self, ctr, m):
        super().__init__(shape=m.shape, dtype=m.dtype, device=m.device)
        self.ctr = ctr
        self.m_ = m

    def _mv(self, x):
        self.ctr.tick()
        return torch.matmul(self.m_, x.unsqueeze(-1)).squeeze(-1)

    def _getparamnames(self, prefix=""):
        return [prefix + "m_"]


def crash_linop(cx, method="custom_exactsolve"):
    def mk(ctr):
        m = cx.const(torch.tensor([[2.0, 0.5], [0.25, 1.5]], dtype=torch.float64)).requires_grad_()
        return Op(ctr, m), m

    def use(op, m):
        B = cx.const(torch.tensor([[1.0], [0.5]], dtype=torch.float64))
        x = solve(op, B, method=method, **({"max_niter": 2} if method != "custom_exactsolve" else {}))
        g, = torch.autograd.grad(x.sum(), [m], create_graph=True)
        torch.autograd.grad(g.sum(), [m], allow_unused=True)
        return x
    import warnings
    ctr = Counter()
    op, m = mk(ctr)
    before = snapshot(op)
    with warnings.catch_warnings():
        warnings.simplefilter("ignore")
        use(op, m)
    total = ctr.n
    cx.claim_true("operator parameters unchanged after a complete run", snapshot(op) == before)
    k = cx.choose(total, "crash_at") + 1
    ctr2 = Counter()
    ctr2.k = k
    op2, m2 = mk(ctr2)
    before2 = snapshot(op2)
    raised = False
    with warnings.catch_warnings():
        warnings.simplefilter("ignore")
        try:
            use(op2, m2)
        except Boom:
            raised = True
    cx.claim_true("the injected failure propagates to the caller", raised, detail="k=%d of %d" % (k, total))
    cx.claim_true("operator parameters unchanged after a failure", snapshot(op2) == before2 and op2.m_ is m2,
                  detail="k=%d of %d" % (k, total))
    return "crash@%d/%d" % (k, total)


def unique_params(cx, n=4):
    """EditableModule.getuniqueparams / setuniqueparams (the machinery behind uselinopparams) on an object with n tensor
    attributes whose IDENTITIES are symbolic: for every aliasing pattern, substituting new tensors keeps exactly the aliasing
    of the original, and putting the unique originals back restores at every position an object identical to the original."""
    from xitorch._core import editable_module as em
    from harness.symid import symbolic_ids, rebound_id
    from symtorch.core import band

    class Holder(xitorch.EditableModule):
        def __init__(self, ts):
            for i, t in enumerate(ts):
                setattr(self, "p%d" % i, t)

        def forward(self):
            return sum(getattr(self, "p%d" % i) for i in range(n))

        def getparamnames(self, methodname, prefix=""):
            return [prefix + "p%d" % i for i in range(n)]
    tensors = [torch.full((1,), float(i + 1), dtype=torch.float64) for i in range(n)]
    vals = symbolic_ids(cx, n)
    m = Holder(tensors)
    index_of = {id(t): i for i, t in enumerate(tensors)}
    with rebound_id(em, tensors, vals):
        uniq = m.getuniqueparams("forward")
        k = len(uniq)
        new = [torch.full((1,), 100.0 + j, dtype=torch.float64) for j in range(k)]
        m.setuniqueparams("forward", *new)
        held = [getattr(m, "p%d" % i) for i in range(n)]
        m.setuniqueparams("forward", *uniq)
        back = [getattr(m, "p%d" % i) for i in range(n)]
    cx.claim_true("every position received one of the new tensors", all(any(h is v for v in new) for h in held))

    def conj(terms):
        r = None
        for t in terms:
            r = t if r is None else band(r, t)
        return r
    pairs = [(i, j) for i in range(n) for j in range(i + 1, n)]
    same = [vals[i] == vals[j] for i, j in pairs if held[i] is held[j]]
    diff = [vals[i] != vals[j] for i, j in pairs if held[i] is not held[j]]
    if same:
        cx.claim("positions that received the same new tensor were aliases of each other", conj(same))
    if diff:
        cx.claim("positions that received different new tensors were not aliases", conj(diff))
    ok = all(id(b) in index_of for b in back)
    cx.claim_true("after putting the originals back every position holds an original tensor", ok)
    if ok:
        cx.claim("... namely one identical to its own original", conj([vals[index_of[id(b)]] == vals[i] for i, b in enumerate(back)]))
    uidx = [index_of[id(u)] for u in uniq]
    d2 = [vals[a] != vals[b] for ia, a in enumerate(uidx) for b in uidx[ia + 1:]]
    if d2:
        cx.claim("the unique parameters are pairwise distinct objects", conj(d2))
    return "%d unique of %d" % (k, n)


def configs(tier):
    cfgs = []

    def add(id_, scenario, opts=None, **params):
        cfgs.append({"id": id_, "scenario": scenario, "params": params, "opts": opts or {}})

    for fn in ("rootfinder", "equilibrium", "minimize", "solve_ivp", "quad", "mcquad", "jac"):
        for kind in ("nn", "editable"):
            add("crash/%s/%s" % (fn, kind), crash, functional=fn, kind=kind)
    for fn in ("rootfinder", "solve_ivp", "quad", "mcquad", "jac"):
        add("crash/%s/editable_nn" % fn, crash, functional=fn, kind="editable_nn")
    # debug mode runs randomised self-checks: exercised on the real code only (seeded crash points)
    add("aux_real_only/crash/rootfinder/nn/debug_on", crash, functional="rootfinder", kind="nn", debug=True,
        opts={"real_only": True, "validate": 6})
    add("aux_real_only/crash/rootfinder/editable/debug_on", crash, functional="rootfinder", kind="editable", debug=True,
        opts={"real_only": True, "validate": 8})
    add("aux_real_only/crash/quad/editable/debug_on", crash, functional="quad", kind="editable", debug=True,
        opts={"real_only": True, "validate": 8})
    for n in ((3, 4, 5) if tier == "quick" else (3, 4, 5, 6)):
        add("unique_params/n%d" % n, unique_params, n=n, opts={"max_paths": 1000, "max_decisions": 400, "budget_s": 900})
    add("debug_contexts/quad/editable", debug_contexts, functional="quad", kind="editable", opts={"max_paths": 400})
    add("debug_contexts/rootfinder/nn", debug_contexts, functional="rootfinder", kind="nn", opts={"max_paths": 400})
    add("crash_linop/custom_exactsolve", crash_linop, method="custom_exactsolve")
    add("crash_linop/cg", crash_linop, method="cg")
    return cfgs
