"""C18 - results and gradients do not depend on how the forward solution was produced; method names."""
import os
import numpy as np
import torch
import xitorch
from xitorch import LinearOperator
from xitorch.linalg import solve, symeig
from xitorch.optimize import rootfinder, equilibrium, minimize
from xitorch.integrate import solve_ivp, quad, mcquad, SQuad
from xitorch.interpolate import Interp1D

from harness.base import grads
from harness.spectral import rot2

PROPERTY = "C18"
DEFAULT_OPTS = {"validate": 2, "timeout_ms": 15000, "budget_s": 300, "max_paths": 40}

META = {
    "bounds": "caller-supplied callables as method for solve (forward and backward), symeig, solve_ivp, quad, mcquad, Interp1D, SQuad "
              "(rootfinder/equilibrium/minimize: see C04, which runs entirely on a caller-supplied forward) on 1-2 dimensional "
              "symbolic problems: arguments, grad mode and options seen by the callable, values and first-order gradients against the "
              "built-in method; get_method over ALL strings of length <= 2 (CrossHair, symbolic str; length <= 3 for the rejection "
              "clause in the thorough tier); every built-in name of every entry point in 4 letter-case variants plus one "
              "misspelling, through the public API",
    "outside": "arbitrary-length symbolic names (CrossHair does not confirm beyond length 2-3 in the time budget), second-order "
               "gradients with custom methods beyond those covered in C02/C04/C06",
    "assumptions": ["CrossHair 0.0.110 (symbolic execution of get_method with z3 string theory): 'Confirmed over all paths' is "
                    "required; anything else is reported as inconclusive"],
}


def _rec():
    return {"calls": []}


def solve_callable(cx):
    A = cx.sym("A", (2, 2), requires_grad=True)
    B = cx.sym("B", (2, 1), requires_grad=True)
    E = cx.sym("E", (1,), requires_grad=True)
    cx.assume(torch.any(B.detach() != 0), note="a non-zero right-hand side (the all-zero case is answered without calling any method)")
    fwd, bck = _rec(), _rec()

    def fwd_method(A_, B_, E_=None, M_=None, **kw):
        fwd["calls"].append({"grad": torch.is_grad_enabled(), "kw": dict(kw), "types": (type(A_).__name__, E_ is not None, M_ is None)})
        K = A_.fullmatrix() - torch.eye(2, dtype=B_.dtype) * E_[0]
        return torch.linalg.solve(K, B_).detach()

    def bck_method(A_, B_, E_=None, M_=None, **kw):
        bck["calls"].append({"grad": torch.is_grad_enabled(), "kw": dict(kw)})
        K = A_.fullmatrix() - torch.eye(2, dtype=B_.dtype) * E_[0]
        return torch.linalg.solve(K, B_)
    X = solve(LinearOperator.m(A, is_hermitian=False), B, E, method=fwd_method, fopt=3, shared=1,
              bck_options={"method": bck_method, "bopt": 5})
    Xr = torch.linalg.solve(A - torch.eye(2, dtype=torch.float64) * E[0], B)
    cx.claim_eq("value", X, Xr)
    cx.claim_true("forward callable: called once, grad disabled, gets exactly the caller's forward options",
                  len(fwd["calls"]) == 1 and fwd["calls"][0]["grad"] is False and fwd["calls"][0]["kw"] == {"fopt": 3, "shared": 1},
                  detail=str(fwd["calls"]))
    g = cx.sym("g", (2, 1))
    cx.assume(torch.any(g != 0), note="a non-zero cotangent (a zero one is answered by the all-zero shortcut)")
    got = grads((g * X).sum(), [A, B, E])
    ref = grads((g * Xr).sum(), [A, B, E])
    for nm, a, b in zip("ABE", got, ref):
        cx.claim_eq("d/d" + nm, a, b)
    cx.claim_true("backward callable: gets exactly the caller's backward options (no forward options leak in)",
                  len(bck["calls"]) >= 1 and all(c["kw"] == {"bopt": 5} for c in bck["calls"]), detail=str(bck["calls"]))
    # same gradients with the built-in exact method
    X2 = solve(LinearOperator.m(A, is_hermitian=False), B, E, method="custom_exactsolve")
    got2 = grads((g * X2).sum(), [A, B, E])
    for nm, a, b in zip("ABE", got, got2):
        cx.claim_eq("d/d%s identical to the built-in method" % nm, a, b)
    return "ok"


def symeig_callable(cx):
    t = cx.sym("t", (), requires_grad=True)
    e = cx.sym("e", (2,), requires_grad=True)
    cx.assume(e.detach()[1] - e.detach()[0] > 1e-2)
    cx.assume(torch.all(e.detach().abs() < 10))
    V = rot2(t)
    A = torch.matmul(V * e.unsqueeze(-2), V.transpose(-2, -1))
    rec = _rec()

    def method(A_, neig, mode, M_=None, **kw):
        rec["calls"].append({"grad": torch.is_grad_enabled(), "kw": dict(kw), "neig": neig, "mode": mode, "M": M_})
        return e.detach()[:neig].clone(), V.detach()[:, :neig].clone()
    ev, vec = symeig(LinearOperator.m(A, is_hermitian=True), neig=1, mode="lowest", method=method, myopt=7)
    cx.claim_true("callable: grad disabled, documented arguments and the caller's option",
                  len(rec["calls"]) == 1 and rec["calls"][0]["grad"] is False and rec["calls"][0]["kw"] == {"myopt": 7}
                  and rec["calls"][0]["neig"] == 1 and rec["calls"][0]["mode"] == "lowest" and rec["calls"][0]["M"] is None,
                  detail=str(rec["calls"]))
    cx.claim_eq("eigenvalue", ev, e[:1])
    w = cx.sym("w", (1,))
    G = cx.sym("G", (2, 1))
    l1 = (w * ev).sum() + (G * vec * vec).sum()
    l2 = (w * e[:1]).sum() + (G * V[:, :1] * V[:, :1]).sum()
    for nm, a, b in zip(["t", "e"], grads(l1, [t, e]), grads(l2, [t, e])):
        cx.claim_eq("d/d" + nm, a, b)
    return "ok"


def ivp_callable(cx):
    from xitorch._impls.integrate.ivp.explicit_rk import rk4_ivp
    a = cx.sym("a", (), requires_grad=True)
    y0 = cx.sym("y0", (1,), requires_grad=True)
    t0 = cx.scalar("t0")
    ts = cx.from_array(np.array([t0, t0 + 0.5, t0 + 0.75], dtype=object))
    rec = _rec()

    def method(fcn, ts_, y0_, params, **kw):
        rec["calls"].append({"grad": torch.is_grad_enabled(), "kw": dict(kw), "nparams": len(params)})
        return rk4_ivp(fcn, ts_, y0_, params)
    # linear in y: no finite-time blow-up for any seeded concrete input (y' = -a y^2 + t overflowed for a=2, y0=-1.5)
    f = lambda t, y, a_: -a_ * y + t * a_
    y1 = solve_ivp(f, ts, y0, params=(a,), method=method, myopt=1)
    y2 = solve_ivp(f, ts, y0, params=(a,), method="rk4")
    cx.claim_true("callable: forward call with grad disabled and the caller's option",
                  len(rec["calls"]) >= 1 and rec["calls"][0]["grad"] is False and rec["calls"][0]["kw"] == {"myopt": 1},
                  detail=str(rec["calls"][:1]))
    cx.claim_eq("value", y1, y2)
    w = cx.sym("w", (3, 1))
    for nm, x, z in zip(["a", "y0"], grads((w * y1).sum(), [a, y0]), grads((w * y2).sum(), [a, y0])):
        cx.claim_eq("d/d" + nm, x, z)
    return "ok"


def quad_callable(cx):
    from xitorch._impls.integrate.fixed_quad import leggauss
    a = cx.sym("a", (), requires_grad=True)
    xu = cx.sym("xu", (), requires_grad=True)
    rec = _rec()

    def method(fcn, xl, xu_, params, **kw):
        rec["calls"].append({"grad": torch.is_grad_enabled(), "kw": dict(kw)})
        return leggauss(fcn, xl, xu_, params, n=kw.get("n", 100))
    f = lambda x, a_: a_ * a_ * x * x * x + x
    y1 = quad(f, 0.0, xu, params=(a,), method=method, n=2)
    y2 = quad(f, 0.0, xu, params=(a,), method="leggauss", n=2)
    cx.claim_true("callable: grad disabled and the caller's option", rec["calls"][0]["grad"] is False and rec["calls"][0]["kw"] == {"n": 2},
                  detail=str(rec["calls"][:1]))
    cx.claim_eq("value", y1, y2)
    for nm, x, z in zip(["a", "xu"], grads(y1, [a, xu]), grads(y2, [a, xu])):
        cx.claim_eq("d/d" + nm, x, z)
    return "ok"


def mcquad_callable(cx):
    from xitorch._impls.integrate.mcsamples.mcmc import mhcustom
    a = cx.sym("a", (), requires_grad=True)
    c = cx.sym("c", (), requires_grad=True)
    x0 = cx.sym("x0", (1,))
    rec = _rec()
    step = lambda x, *p: x * 0.5 + 1.0

    def method(logp, x0_, pparams, **kw):
        rec["calls"].append({"grad": torch.is_grad_enabled(), "kw": sorted(kw)})
        return mhcustom(logp, x0_, pparams, **kw)
    f = lambda x, a_: a_ * a_ * x * x
    lp = lambda x, c_: (-c_ * x * x).sum()
    y1 = mcquad(f, lp, x0, fparams=(a,), pparams=(c,), method=method, nsamples=2, nburnout=1, custom_step=step)
    y2 = mcquad(f, lp, x0, fparams=(a,), pparams=(c,), method="mhcustom", nsamples=2, nburnout=1, custom_step=step)
    cx.claim_true("callable: grad disabled and the caller's options",
                  rec["calls"][0]["grad"] is False and rec["calls"][0]["kw"] == ["custom_step", "nburnout", "nsamples"], detail=str(rec["calls"][:1]))
    cx.claim_eq("value", y1, y2)
    g = cx.sym("g", (1,))
    for nm, x, z in zip(["a", "c"], grads((g * y1).sum(), [a, c]), grads((g * y2).sum(), [a, c])):
        cx.claim_eq("d/d" + nm, x, z)
    return "ok"


def interp_squad_callable(cx):
    from xitorch._impls.interpolate.interp_1d import LinearInterp1D
    from xitorch._impls.integrate.samples_quad import TrapzSQuad
    x = cx.const(torch.tensor([0.0, 0.5, 2.0], dtype=torch.float64))
    y = cx.sym("y", (3,), requires_grad=True)
    q = cx.sym("q", (1,))
    cx.assume((q > 0.5) & (q < 2.0))
    v1 = Interp1D(x, y, method=LinearInterp1D, assume_sorted=True)(q)
    v2 = Interp1D(x, y, method="linear", assume_sorted=True)(q)
    cx.claim_eq("Interp1D: callable method = named method", v1, v2)
    cx.claim_eq("Interp1D: gradient", grads(v1.sum(), [y])[0], grads(v2.sum(), [y])[0])
    s1 = SQuad(x, method=TrapzSQuad).cumsum(y)
    s2 = SQuad(x, method="trapz").cumsum(y)
    cx.claim_eq("SQuad: callable method = named method", s1, s2)
    return "ok"


def _variants(name, k):
    vs = [name.upper(), name.title(), "".join(ch.upper() if i % 2 else ch for i, ch in enumerate(name)),
          "".join(ch.upper() if (i * 7 + k) % 3 == 0 else ch for i, ch in enumerate(name))]
    return [v for v in dict.fromkeys(vs) if v != name]


def names(cx, entry="solve"):
    """every built-in method name of the entry point in several letter-case variants gives the result of the lower-case
    name; a misspelt name is rejected with an error"""
    A = cx.sym("A", (2, 2))
    Asym = (A + A.transpose(-2, -1)) * 0.5 + 3 * torch.eye(2, dtype=torch.float64)
    B = cx.sym("B", (2, 1))
    y0 = cx.sym("y0", (1,))
    x3 = cx.const(torch.tensor([0.0, 0.5, 2.0], dtype=torch.float64))
    y3 = cx.sym("y3", (3,))
    import warnings
    calls = {
        "solve": (["exactsolve", "custom_exactsolve"], lambda m: solve(LinearOperator.m(A, is_hermitian=False), B, method=m)),
        "symeig": (["exacteig", "custom_exacteig"], lambda m: symeig(LinearOperator.m(Asym, is_hermitian=True), neig=1, method=m)[0]),
        "rootfinder": (["linearmixing"], lambda m: rootfinder(lambda y: y * 0.5 + 0.25, y0, method=m, maxiter=1, alpha=-1.0)),
        "equilibrium": (["linearmixing", "anderson_acc"], lambda m: equilibrium(lambda y: y * 0.5 + 0.25, y0, method=m, maxiter=3)),
        "minimize": (["linearmixing", "gd"], lambda m: minimize(lambda y: (y * y).sum(), y0, method=m, maxiter=1, **(
            {"alpha": -1.0} if m.lower() == "linearmixing" else {"step": 0.1}))),
        "solve_ivp": (["rk4", "rk38", "euler"], lambda m: solve_ivp(lambda t, y: -y, x3, y0, method=m)),
        "quad": (["leggauss"], lambda m: quad(lambda x: x * x * y0, 0.0, 1.0, method=m, n=2)),
        "mcquad": (["mhcustom"], lambda m: mcquad(lambda x: x * x, lambda x: (-x * x).sum(), y0, method=m, nsamples=2, nburnout=1,
                                                  custom_step=lambda x: x * 0.5 + 1.0)),
        "Interp1D": (["linear", "cspline"], lambda m: Interp1D(x3, y3, method=m, assume_sorted=True, **(
            {"bc_type": "natural"} if m.lower() == "cspline" else {}))(
            cx.const(torch.tensor([0.25, 1.0], dtype=torch.float64)))),
        "SQuad": (["trapz", "simpson", "cspline"], lambda m: SQuad(x3, method=m).cumsum(y3)),
    }[entry]
    nms, call = calls
    from harness.c03 import sym_float
    with torch.no_grad(), warnings.catch_warnings(), sym_float(cx):
        warnings.simplefilter("ignore")
        for k, nm in enumerate(nms):
            ref = call(nm)
            for v in _variants(nm, k):
                try:
                    out = call(v)
                except Exception as ex_:          # noqa
                    cx.claim_true("%s(method=%r) accepted" % (entry, v), False, detail="%s: %s" % (type(ex_).__name__, str(ex_)[:120]))
                    continue
                cx.claim_eq("%s(method=%r) = method %r" % (entry, v, nm), out, ref)
            bad = nm[:-1] + ("x" if nm[-1] != "x" else "y")
            try:
                call(bad)
                rejected = False
            except (RuntimeError, TypeError, KeyError):
                rejected = True
            cx.claim_true("%s(method=%r) rejected" % (entry, bad), rejected)
        # the empty name is an unknown name like any other
        try:
            call("")
            rejected = False
        except (RuntimeError, TypeError, KeyError):
            rejected = True
        cx.claim_true("%s(method='') rejected" % entry, rejected)
    return "ok"


class _FalsyMethod:
    """a callable object that is falsy (it has a length, and the length is 0): still a caller-supplied method"""

    def __init__(self, fn):
        self.fn = fn
        self.ncalls = 0

    def __len__(self):
        return 0

    def __call__(self, *a, **k):
        self.ncalls += 1
        return self.fn(*a, **k)


def falsy_callable(cx, entry="rootfinder"):
    """a caller-supplied callable is used whatever its truth value"""
    y0 = cx.sym("y0", (1,))
    ys = cx.sym("ys", (1,))
    A = cx.sym("A", (2, 2))
    B = cx.sym("B", (2, 1))
    Xp = cx.sym("Xp", (2, 1))
    x3 = cx.const(torch.tensor([0.0, 0.5, 2.0], dtype=torch.float64))
    with torch.no_grad():
        if entry in ("rootfinder", "equilibrium", "minimize"):
            m = _FalsyMethod(lambda fcn, y0_, params, **kw: ys.clone())
            fn = {"rootfinder": rootfinder, "equilibrium": equilibrium, "minimize": minimize}[entry]
            f = (lambda y: (y * y).sum()) if entry == "minimize" else (lambda y: y * 0.5 + 0.25)
            out = fn(f, y0, method=m)
            cx.claim_eq("result is what the callable returned", out, ys)
        elif entry == "solve":
            m = _FalsyMethod(lambda A_, B_, E_, M_, **kw: Xp.clone())
            cx.assume(B[0, 0] != 0, note="an all-zero right-hand side takes the documented shortcut and calls no method")
            out = solve(LinearOperator.m(A, is_hermitian=False), B, method=m)
            cx.claim_eq("result is what the callable returned", out, Xp)
        elif entry == "solve_ivp":
            yt = cx.sym("yt", (3, 1))
            m = _FalsyMethod(lambda fcn, ts, y0_, params, **kw: yt.clone())
            out = solve_ivp(lambda t, y: -y, x3, y0, method=m)
            cx.claim_eq("result is what the callable returned", out, yt)
        elif entry == "quad":
            q = cx.sym("q", (1,))
            m = _FalsyMethod(lambda fcn, xl, xu, params, **kw: q.clone())
            out = quad(lambda x: x * x * y0, 0.0, 1.0, method=m)
            cx.claim_eq("result is what the callable returned", out, q)
        else:
            raise KeyError(entry)
    cx.claim_true("the callable was called", m.ncalls >= 1, detail="%d calls" % m.ncalls)
    return "ok"


def crosshair_get_method(cx, maxlen=2, props=("prop_case_insensitive", "prop_unknown_rejected")):
    """get_method over all strings up to maxlen characters (CrossHair, symbolic str)"""
    from harness.crosshair import run_crosshair
    os.environ["CH_MAXLEN"] = str(maxlen)
    res, out = run_crosshair("ch/get_method_props.py", per_condition_timeout=150, total_timeout=900)
    for p in props:
        st = res.get(p, "missing")
        if st.startswith("refuted"):
            cx.claim_true("get_method %s for all names of length <= %d" % (p, maxlen), False, detail=st)
        elif st == "confirmed":
            cx.claim_true("get_method %s for all names of length <= %d" % (p, maxlen), True)
        else:
            cx.note("CrossHair could not confirm %s: %s" % (p, st))
            cx.claim_true("inconclusive:%s" % p, True, detail=st)
    cx.claim_true("vacuity twin refuted (a false property is found false)", res.get("twin_must_be_refuted", "").startswith("refuted"),
                  detail=res.get("twin_must_be_refuted", "missing"))
    return "ok"


def configs(tier):
    cfgs = []

    def add(id_, scenario, opts=None, **params):
        cfgs.append({"id": id_, "scenario": scenario, "params": params, "opts": opts or {}})

    add("callable/solve", solve_callable)
    add("callable/symeig", symeig_callable)
    for entry in ("rootfinder", "equilibrium", "minimize", "solve", "solve_ivp", "quad"):
        add("falsy_callable/%s" % entry, falsy_callable, entry=entry)
    add("callable/solve_ivp", ivp_callable)
    from harness.c08 import option_flow
    add("callable/solve_ivp/bck_options", option_flow, case="bck_options")
    add("callable/solve_ivp/sequence", option_flow, case="sequence")
    # the solution produced by a built-in root solver that stops at once (warm start exactly on the root) must give the same
    # gradients as any other way of producing it (scenario shared with C04)
    from harness.c04 import ift1d
    for m in ("broyden1", "newton"):
        add("builtin_warm_start_on_root/rootfinder/%s/2nd" % m, ift1d, entry="rootfinder", placement="explicit", second=True, warm=m)
    add("builtin_warm_start_on_root/rootfinder/broyden1/y0_constant", ift1d, entry="rootfinder", placement="explicit",
        second=False, warm="broyden1", y0_grad=False)
    add("callable/quad", quad_callable)
    add("callable/mcquad", mcquad_callable)
    add("callable/interp_squad", interp_squad_callable)
    for entry in ("solve", "symeig", "rootfinder", "equilibrium", "minimize", "solve_ivp", "quad", "mcquad", "Interp1D", "SQuad"):
        add("names/%s" % entry, names, entry=entry)
    add("crosshair/get_method/len2", crosshair_get_method, maxlen=2, opts={"real_only": True, "validate": 1, "budget_s": 900})
    if tier == "thorough":
        add("crosshair/get_method/len3", crosshair_get_method, maxlen=3, props=("prop_unknown_rejected",),
            opts={"real_only": True, "validate": 1, "budget_s": 1200})
    return cfgs
