import sys, json, time
sys.path.insert(0, '/verif')
import torch
torch.set_num_threads(1)
from harness import base
import importlib
pid, cfgid = sys.argv[1], sys.argv[2]
mod = importlib.import_module("harness.%s" % pid.lower())
c = {c["id"]: c for c in mod.configs(sys.argv[3] if len(sys.argv) > 3 else "quick")}[cfgid]
opts = dict(getattr(mod, "DEFAULT_OPTS", {})); opts.update(c.get("opts", {}))
import symtorch.core as core
orig = core.Explorer._check
def chk(self, extra, abstraction=False, timeout_ms=None, want_model=False, kind="q", **kw):
    t = time.time()
    r = orig(self, extra, abstraction, timeout_ms, want_model, kind, **kw)
    dt = time.time() - t
    if dt > 0.5:
        print("  slow query kind=%s abs=%s -> %s %.2fs  npc=%d" % (kind, abstraction, r[0], dt, len(self.pc)), flush=True)
    return r
core.Explorer._check = chk
res = base.run_config(pid, cfgid, c["scenario"], c.get("params", {}), opts)
for p in res["paths"]:
    print(p["prefix"], p["outcome"], [(c["name"], c["status"], c["secs"]) for c in p["claims"]])
print({k: v for k, v in res.items() if k not in ("paths", "functions", "aten_ops")})
for p in res["paths"]:
    if "trace" in p: print(p["prefix"], p["trace"])
for v in res.get("violations", []) + [h for h in res.get("harness_errors", [])]:
    if isinstance(v, dict) and v.get("tb"): print(v["tb"])
