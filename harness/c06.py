"""C06 - gradients of eigenpairs and singular triplets are exact, including degeneracy."""
import torch
import xitorch
from xitorch import LinearOperator
from xitorch.linalg import symeig, svd

from harness.base import grads, zero_if_none
from harness.spectral import rot2, rot3, lower
from harness.linops import make_classes

PROPERTY = "C06"
DEFAULT_OPTS = {"validate": 2, "timeout_ms": 20000, "budget_s": 200, "max_paths": 40}

META = {
    "bounds": "planted-parametrisation differential: with autograd leaves p = (rotation parameter t, eigenvalues e, lower factor L of M) "
              "the loss of symeig(A(p), M(p)) through the REAL backward code (degen_symeig.backward for exacteig; "
              "symeig_torchfcn.backward with its projection, shifted solve and separate A/M pull-backs for custom_exacteig) is "
              "differentiated w.r.t. p and proved identical to the gradient of the same loss of the closed form (e(p), X(p)); n=2 full and "
              "partial spectra (n=3 with an exactly degenerate pair in the thorough tier), with and without M, dense and matrix-free "
              "operators, gauge-invariant losses (eigenvalues, X*X); second order for n=2 without M; svd of 2x2 matrices and of 2x3 matrix-free operators",
    "outside": "davidson as forward method (the backward only sees its output), near-degenerate conditioning (eigenvalue gaps "
               "between the code's degeneracy thresholds and 1e-2), n>3, second order with M, rounding",
    "assumptions": ["torch.linalg.eigh/cholesky replaced by contracts returning the planted factors (values only: gradients flow "
                    "exclusively through xitorch's own backward code)", "eigenvalue gap > 1e-2, |e| < 10",
                    "the shifted solve (A - e_i M) g = -b in the implicit backward is singular by construction; its contract returns a "
                    "particular solution plus an arbitrary multiple (fresh symbol) of the null vector"],
}


def _loss(ev, X, w, G):
    return (w * ev).sum() + (G * X * X).sum()


def eig_grad(cx, n=2, neig=2, mode="lowest", method="exacteig", withM=False, second=False, opkind="dense", degenerate=False,
             concreteM=False):
    if n == 2:
        t = cx.sym("t", (), requires_grad=True)
        rot_leaves = [t]
        V = rot2(t)
    else:
        q = cx.sym("q", (4,), requires_grad=True)
        cx.assume((q.detach() * q.detach()).sum() > 0.1)
        rot_leaves = [q]
        V = rot3(q)
    if degenerate:
        # e = (e1, e1, e3): an exactly degenerate pair (same symbol)
        e2 = cx.sym("e", (2,), requires_grad=True)
        cx.assume(e2.detach()[1] - e2.detach()[0] > 1e-2)
        e = torch.stack([e2[0], e2[0], e2[1]])
        e_leaf = e2
    else:
        e = cx.sym("e", (n,), requires_grad=True)
        for i in range(n - 1):
            cx.assume(e.detach()[i + 1] - e.detach()[i] > 1e-2, note="gap above the degeneracy thresholds")
        e_leaf = e
    cx.assume(torch.all(e.detach().abs() < 10))
    leaves = rot_leaves + [e_leaf]
    A0 = torch.matmul(V * e.unsqueeze(-2), V.transpose(-2, -1))
    if withM:
        if concreteM:
            # M fixed at one SPD point (its factor still is an autograd leaf)
            l = cx.const(torch.tensor([[0.0, 0.0, 0.0], [0.5, 0.0, 0.0], [-0.25, 0.75, 0.0]], dtype=torch.float64)[:n, :n]
                         ).requires_grad_()
            ld = cx.const(torch.tensor([1.0, 1.5, 0.75], dtype=torch.float64)[:n]).requires_grad_()
        else:
            l = cx.sym("l", (n, n), requires_grad=True)
            ld = cx.sym("ld", (n,), positive=True, lo=0.5, hi=2, requires_grad=True)
        leaves += [l, ld]
        L = lower(l, ld)
        M = torch.matmul(L, L.transpose(-2, -1))
        A = torch.matmul(L, torch.matmul(A0, L.transpose(-2, -1)))
        cx.plant("cholesky", M.detach(), L.detach())
        X = torch.linalg.solve_triangular(L.transpose(-2, -1), V, upper=True)
    else:
        M = None
        A = A0
        X = V
    cx.plant("eigh", A0.detach(), (e.detach(), V.detach()))
    if opkind == "dense":
        Aop = LinearOperator.m(A, is_hermitian=True)
    else:
        Aop = make_classes()["mvonly"](A, is_hermitian=True)
    Mop = LinearOperator.m(M, is_hermitian=True) if withM else None
    ev, vec = symeig(Aop, neig=neig, mode=mode, M=Mop, method=method)
    sl = slice(0, neig) if mode == "lowest" else slice(n - neig, n)
    w = cx.sym("w", (neig,))
    if degenerate:
        # basis-independent loss on the degenerate subspace: projector X X^T contracted with a symmetric matrix
        S0 = cx.sym("S", (n, n))
        Ssym = S0 + S0.transpose(-2, -1)
        loss1 = (w * ev).sum() + (Ssym * torch.matmul(vec, vec.transpose(-2, -1))).sum()
        Xs = X[:, sl]
        loss2 = (w * e[sl]).sum() + (Ssym * torch.matmul(Xs, Xs.transpose(-2, -1))).sum()
    else:
        G = cx.sym("G", (n, neig))
        loss1 = _loss(ev, vec, w, G)
        loss2 = _loss(e[sl], X[:, sl], w, G)
    cx.claim_eq("loss value", loss1, loss2)
    g1 = grads(loss1, leaves, create_graph=second)
    g2 = grads(loss2, leaves, create_graph=second)
    names = ["rot", "e"] + (["l", "ld"] if withM else [])
    for nm, a, b in zip(names, g1, g2):
        cx.claim_eq("d/d" + nm, a, b)
    if second:
        ga1 = zero_if_none(g1, leaves)
        ga2 = zero_if_none(g2, leaves)
        c1 = sum((0.5 * (i + 1) * g).sum() for i, g in enumerate(ga1))
        c2 = sum((0.5 * (i + 1) * g).sum() for i, g in enumerate(ga2))
        h1 = grads(c1, leaves)
        h2 = grads(c2, leaves)
        for nm, a, b in zip(names, h1, h2):
            cx.claim_eq("d2/d" + nm, a, b)
    return "ok"


def eig_grad_breaking(cx, method="custom_exacteig", neig=2):
    """exactly degenerate lowest pair (e1, e1, e3), n=3: gradient of a basis-independent loss w.r.t. the RAW matrix entries,
    i.e. also along directions that break the degeneracy (the parametrised scenarios only move along directions that keep it).
    The matrix is A = V diag(e) V^T + (P + P^T)/2 with P an all-zero leaf; the reference is first-order perturbation theory for
    the cluster: d sum_{i in D} e_i = tr(Pi_D dA),  d Pi_D = sum_{i in D, j not in D} (v_i v_j^T + v_j v_i^T) v_i^T dA v_j/(e_i-e_j)"""
    n = 3
    q = cx.sym("q", (4,))
    cx.assume((q * q).sum() > 0.1)
    V = rot3(q)
    e2 = cx.sym("e", (2,))
    cx.assume(e2[1] - e2[0] > 1e-2)
    cx.assume(torch.all(e2.abs() < 10))
    e = torch.stack([e2[0], e2[0], e2[1]])
    A0 = torch.matmul(V * e.unsqueeze(-2), V.transpose(-2, -1))
    P = cx.const(torch.zeros((n, n), dtype=torch.float64)).requires_grad_()
    A = A0 + (P + P.transpose(-2, -1)) * 0.5
    cx.plant("eigh", A0.detach(), (e.detach(), V.detach()))
    ev, vec = symeig(LinearOperator.m(A, is_hermitian=True), neig=neig, mode="lowest", method=method)
    S0 = cx.sym("S", (n, n))
    Ssym = S0 + S0.transpose(-2, -1)
    w = cx.sym("w", ())
    D = vec[:, :2]
    loss = w * ev[:2].sum() + (Ssym * torch.matmul(D, D.transpose(-2, -1))).sum()
    gP, = grads(loss, [P])
    VD, v3 = V[:, :2], V[:, 2:]
    PiD = torch.matmul(VD, VD.transpose(-2, -1))
    c = torch.matmul(VD.transpose(-2, -1), torch.matmul(Ssym, v3)) / (e[0] - e[2])      # (2,1): v_i^T S v_3 / (e_i - e_3)
    R = torch.matmul(VD, torch.matmul(c, v3.transpose(-2, -1)))                           # sum_i c_i v_i v_3^T
    GA = w * PiD + R + R.transpose(-2, -1)
    cx.claim_eq("d/dA of a cluster-invariant loss at an exact degeneracy (all directions)", gP, (GA + GA.transpose(-2, -1)) * 0.5)
    return "ok"


def diag_matrix(cx, mode="uppest", neig=1):
    """a DIAGONAL matrix with exactly representable entries (the shifted system of the implicit backward is then exactly
    singular also in floating point): gradient w.r.t. the raw entries through the implicit backward == through exacteig"""
    n = 3
    gaps = cx.sym("gaps", (n,), positive=True, lo=0.25, hi=2)
    e = torch.cumsum(gaps, dim=-1) - 2.0           # ascending by construction, exactly representable on the seeded grid
    P = cx.const(torch.zeros((n, n), dtype=torch.float64)).requires_grad_()
    A = torch.diag_embed(e) + (P + P.transpose(-2, -1)) * 0.5
    S0 = cx.sym("S", (n, n))
    Ssym = S0 + S0.transpose(-2, -1)
    w = cx.sym("w", (neig,))
    out = []
    for method in ("exacteig", "custom_exacteig"):
        ev, vec = symeig(LinearOperator.m(A, is_hermitian=True), neig=neig, mode=mode, method=method)
        loss = (w * ev).sum() + (Ssym * torch.matmul(vec, vec.transpose(-2, -1))).sum()
        out.append(grads(loss, [P])[0])
    cx.claim_eq("d/dA: implicit backward == exacteig on a diagonal matrix", out[1], out[0])
    return "ok"


def batch_mixed(cx, method="custom_exacteig"):
    """a batch with one exactly degenerate element and one with distinct eigenvalues (3x3, neig=3), basis-independent loss;
    run on the real code only (the regularised singular solve of the degenerate element is outside the symbolic engine)"""
    q = cx.sym("q", (2, 4), requires_grad=True, lo=0.5, hi=2, positive=True)
    e = cx.sym("e", (2, 2), requires_grad=True, lo=0.5, hi=2, positive=True)
    es = []
    es.append(torch.stack([e[0, 0], e[0, 0], e[0, 0] + 0.5 + e[0, 1]]))          # degenerate pair
    es.append(torch.stack([e[1, 0], e[1, 0] + 0.75, e[1, 0] + 1.5 + e[1, 1]]))   # distinct
    As, Xs = [], []
    for b in range(2):
        V = rot3(q[b])
        As.append(torch.matmul(V * es[b].unsqueeze(-2), V.transpose(-2, -1)))
        Xs.append(V)
    A = torch.stack(As)
    ev, vec = symeig(LinearOperator.m(A, is_hermitian=True), neig=3, method=method)
    S0 = cx.sym("S", (3, 3))
    Ssym = S0 + S0.transpose(-2, -1)
    w = cx.sym("w", (3,))
    # projector on the two lowest eigenvectors (the degenerate subspace of element 0) and the third one
    P1 = torch.matmul(vec[..., :2], vec[..., :2].transpose(-2, -1))
    loss1 = (w * ev).sum() + (Ssym * P1).sum()
    P2 = torch.stack([torch.matmul(X[:, :2], X[:, :2].transpose(-2, -1)) for X in Xs])
    loss2 = (w * torch.stack(es)).sum() + (Ssym * P2).sum()
    cx.claim_eq("loss value", loss1, loss2)
    g1 = grads(loss1, [q, e])
    g2 = grads(loss2, [q, e])
    cx.claim_eq("d/dq", g1[0], g2[0], tol=1e-5)
    cx.claim_eq("d/de", g1[1], g2[1], tol=1e-5)
    return "ok"


def svd_grad(cx, mode="uppest", k=None, method="exacteig"):
    """2x2: A = U(tu) diag(sig) V(tv)^T; loss of singular values and of the rank-one terms s_i u_i v_i^T"""
    tu = cx.const(torch.tensor(0.5, dtype=torch.float64)).requires_grad_()
    tv = cx.sym("tv", (), requires_grad=True)
    sig = cx.sym("sig", (2,), positive=True, lo=0.25, hi=2, requires_grad=True)
    cx.assume(sig.detach()[0] > 1e-1)
    cx.assume(sig.detach()[1] - sig.detach()[0] > 1e-1)
    U = rot2(tu)
    Vm = rot2(tv)
    A = torch.matmul(U * sig.unsqueeze(-2), Vm.transpose(-2, -1))
    G = torch.matmul(A.transpose(-2, -1), A)
    cx.plant("eigh", G.detach(), ((sig * sig).detach(), Vm.detach()))
    for i in range(2):
        cx.plant("sqrt", (sig[i] * sig[i]).detach().reshape(1), sig[i].detach())
    kk = 2 if k is None else k
    u, s, vh = svd(LinearOperator.m(A, is_hermitian=False), k=k, mode=mode, method=method)
    sl = slice(0, kk) if mode == "lowest" else slice(2 - kk, 2)
    w = cx.sym("w", (kk,))
    R = cx.sym("R", (2, 2))
    rank1 = torch.matmul(u * s.unsqueeze(-2), vh)
    rank1_ref = torch.matmul(U[:, sl] * sig[sl].unsqueeze(-2), Vm[:, sl].transpose(-2, -1))
    loss1 = (w * s).sum() + (R * rank1).sum()
    loss2 = (w * sig[sl]).sum() + (R * rank1_ref).sum()
    cx.claim_eq("loss value", loss1, loss2)
    g1 = grads(loss1, [tu, tv, sig])
    g2 = grads(loss2, [tu, tv, sig])
    for nm, a, b in zip(["tu", "tv", "sig"], g1, g2):
        cx.claim_eq("d/d" + nm, a, b)
    return "ok"


def svd_grad_wide(cx, opkind="mvonly", k=None, method="exacteig"):
    """2x3 (wide) operator given matrix-free (only _mv, or _mv and _rmv): A = U(tu) diag(sig) V[:, :2]^T with the 3x3 rotation V
    fixed; svd() then diagonalises A A^T, which it builds through the operator's adjoint products; gradients w.r.t. tu, sig
    and the entries of a perturbation P added to A (so that every entry of the operator's matrix is a leaf)"""
    from harness.spectral import rot3
    from harness.linops import make_classes
    tu = cx.sym("tu", (), requires_grad=True)
    sig = cx.sym("sig", (2,), positive=True, lo=0.25, hi=2, requires_grad=True)
    cx.assume(sig.detach()[0] > 1e-1)
    cx.assume(sig.detach()[1] - sig.detach()[0] > 1e-1)
    U = rot2(tu)
    Vm = rot3(cx.const(torch.tensor([1.0, 0.5, -0.25, 0.75], dtype=torch.float64)))[:, :2]
    A = torch.matmul(U * sig.unsqueeze(-2), Vm.transpose(-2, -1))          # (2, 3)
    G = torch.matmul(A, A.transpose(-2, -1))
    cx.plant("eigh", G.detach(), ((sig * sig).detach(), U.detach()))
    for i in range(2):
        cx.plant("sqrt", (sig[i] * sig[i]).detach().reshape(1), sig[i].detach())
    op = make_classes()[opkind](A)
    kk = 2 if k is None else k
    u, s, vh = svd(op, k=k, mode="uppest", method=method)
    sl = slice(2 - kk, 2)
    w = cx.sym("w", (kk,))
    R = cx.sym("R", (2, 3))
    rank1 = torch.matmul(u * s.unsqueeze(-2), vh)
    rank1_ref = torch.matmul(U[:, sl] * sig[sl].unsqueeze(-2), Vm[:, sl].transpose(-2, -1))
    loss1 = (w * s).sum() + (R * rank1).sum()
    loss2 = (w * sig[sl]).sum() + (R * rank1_ref).sum()
    cx.claim_eq("loss value", loss1, loss2)
    g1 = grads(loss1, [tu, sig])
    g2 = grads(loss2, [tu, sig])
    for nm, a, b in zip(["tu", "sig"], g1, g2):
        cx.claim_eq("d/d" + nm, a, b)
    return "ok"


def configs(tier):
    cfgs = []

    def add(id_, scenario, opts=None, **params):
        cfgs.append({"id": id_, "scenario": scenario, "params": params, "opts": opts or {}})

    for method in ("exacteig", "custom_exacteig"):
        add("eig/%s/A/n2/neig2/lowest" % method, eig_grad, n=2, neig=2, method=method)
        add("eig/%s/A/n2/neig1/lowest" % method, eig_grad, n=2, neig=1, method=method)
        add("eig/%s/A/n2/neig1/uppest" % method, eig_grad, n=2, neig=1, mode="uppest", method=method)
        cm = True
        tag = "/Mfixed"
        add("eig/%s/AM/n2/neig2/lowest%s" % (method, tag), eig_grad, n=2, neig=2, method=method, withM=True, concreteM=cm)
        if method == "exacteig":
            add("eig/%s/AM/n2/neig1/lowest%s" % (method, tag), eig_grad, n=2, neig=1, method=method, withM=True, concreteM=cm)
            add("eig/%s/AM/n2/neig1/uppest%s" % (method, tag), eig_grad, n=2, neig=1, mode="uppest", method=method, withM=True,
                concreteM=cm)
    add("eig/custom_exacteig/A/n2/neig1/lowest/mvonly", eig_grad, n=2, neig=1, method="custom_exacteig", opkind="mvonly")
    add("aux_real_only/batch_mixed_degenerate/custom_exacteig", batch_mixed, method="custom_exacteig", opts={"real_only": True, "validate": 3})
    add("aux_real_only/batch_mixed_degenerate/exacteig", batch_mixed, method="exacteig", opts={"real_only": True, "validate": 3})
    # exactly degenerate pair with an overlap matrix (M fixed at one SPD point, its factor still is a leaf)
    # (the 3x3 singular shifted solve of this case is beyond the symbolic contracts: auxiliary concrete differential on the real
    # code against the closed form, labelled as such; never counted as a solver result)
    for neig_ in (3, 2):
        add("aux_real_only/eig/custom_exacteig/AM/n3/neig%d/degenerate" % neig_, eig_grad, n=3, neig=neig_, method="custom_exacteig",
            withM=True, degenerate=True, opts={"real_only": True, "validate": 4})
    add("aux_real_only/eig/exacteig/AM/n3/neig3/degenerate", eig_grad, n=3, neig=3, method="exacteig", withM=True, degenerate=True,
        opts={"real_only": True, "validate": 3})
    for method in ("exacteig", "custom_exacteig"):
        # auxiliary, concrete (seeded planted matrices on the real float64 code): the implicit backward solves an exactly
        # singular shifted 3x3 system, which exact arithmetic cannot follow (float LAPACK + projection can)
        add("aux_real_only/eig/%s/A/n3/neig2/degenerate/raw_entries" % method, eig_grad_breaking, method=method,
            opts={"real_only": True, "validate": 4})
    for mode in ("uppest", "lowest"):
        add("aux_real_only/eig/custom_exacteig/A/n3/neig1/%s/diagonal" % mode, diag_matrix, mode=mode,
            opts={"real_only": True, "validate": 4})
    add("svd/exacteig/full", svd_grad, mode="uppest", k=None)
    add("svd/custom_exacteig/k1/lowest", svd_grad, mode="lowest", k=1, method="custom_exacteig")
    add("svd/exacteig/wide2x3/mvonly", svd_grad_wide, opkind="mvonly")
    add("svd/exacteig/wide2x3/mvrmv/k1", svd_grad_wide, opkind="mvrmv", k=1)
    if tier == "thorough":
        big = {"budget_s": 1700, "timeout_ms": 90000}
        for method in ("exacteig", "custom_exacteig"):
            add("eig/%s/A/n3/neig2/lowest" % method, eig_grad, n=3, neig=2, method=method, opts=big)
            add("eig/%s/AM/n2/neig1/lowest/Msymbolic" % method, eig_grad, n=2, neig=1, method=method, withM=True, opts=big)
            add("eig/%s/AM/n2/neig1/uppest/Mfixed2" % method, eig_grad, n=2, neig=1, mode="uppest", method=method, withM=True,
                concreteM=True, opts=big)
            add("eig/%s/A/n3/neig2/lowest/degenerate" % method, eig_grad, n=3, neig=2, method=method, degenerate=True, opts=big)
            add("eig/%s/A/n3/neig3/degenerate" % method, eig_grad, n=3, neig=3, method=method, degenerate=True, opts=big)
            add("eig/%s/AM/n2/neig2/lowest/2nd" % method, eig_grad, n=2, neig=2, method=method, withM=True, second=True, opts=big)
            add("eig/%s/A/n2/neig2/lowest/2nd" % method, eig_grad, n=2, neig=2, method=method, second=True, opts=big)
    return cfgs
