"""C12 - quad applies an exact n-point Gauss-Legendre rule on the requested interval."""
from fractions import Fraction

import numpy as np
import torch
import xitorch
from xitorch.integrate import quad

from symtorch.core import rat

PROPERTY = "C12"
DEFAULT_OPTS = {"validate": 2, "timeout_ms": 10000, "budget_s": 240, "max_paths": 40}

META = {
    "bounds": "n = 1..4 (quick) / 1..8 (thorough); limits symbolic (tensor-valued, any sign and orientation) or fixed python "
              "numbers, half- and doubly-infinite limits with tan/atan/cos left uninterpreted; integrand = indicator-valued recorder "
              "(rule extraction: the k-th evaluation returns the k-th unit vector, so the result IS the weight vector, and the "
              "evaluation points are recorded), tuple-valued integrands",
    "outside": "accuracy on non-polynomial (decaying) integrands, n in the hundreds, float32, rounding beyond the stated 1e-14 "
               "on the reference rule",
    "assumptions": ["the reference rule (xi, omega) is numpy.polynomial.legendre.leggauss(n) read as exact rationals; its moment "
                    "conditions (degree <= 2n-1, error <= 1e-14), symmetry and weight sum are checked in exact rational arithmetic on "
                    "every run; exactness of quad on polynomials then follows from the proved affine-image identities"],
}


def _reference_rule(n):
    xi, om = np.polynomial.legendre.leggauss(n)
    return [rat(float(v)) for v in xi], [rat(float(v)) for v in om]


class Recorder:
    """integrand whose k-th evaluation (after the probing call made by quad itself) returns the k-th unit vector"""

    def __init__(self, n, dtype=torch.float64):
        self.n = n
        self.calls = []
        self.dtype = dtype
        rec = self

        def fcn(x, *params):
            k = len(rec.calls)
            rec.calls.append(x)
            out = torch.zeros(rec.n, dtype=rec.dtype)
            if k >= 1:
                out[(k - 1) % rec.n] = 1.0
            return out
        self.fcn = fcn


def rule(cx, n=2, limits="tensor", swapped=False):
    xi, om = _reference_rule(n)
    # concrete facts about the reference rule (exact rational arithmetic)
    cx.claim_true("reference weights sum to 2", abs(sum(om) - 2) <= Fraction(1, 10 ** 14))
    ok = True
    worst = Fraction(0)
    for k in range(2 * n):
        num = sum(w * x ** k for x, w in zip(xi, om))
        exact = Fraction(2, k + 1) if k % 2 == 0 else Fraction(0)
        worst = max(worst, abs(num - exact))
    cx.claim_true("reference rule integrates x^k exactly for k<=2n-1 (<=1e-14)", worst <= Fraction(1, 10 ** 14),
                  detail="worst moment error %.3e" % float(worst))
    cx.claim_true("reference rule is symmetric (<=1e-15)",
                  all(abs(xi[i] + xi[n - 1 - i]) <= Fraction(1, 10 ** 15) and abs(om[i] - om[n - 1 - i]) <= Fraction(1, 10 ** 15)
                      for i in range(n)))
    if limits == "tensor":
        xl = cx.sym("xl", (1,))
        xu = cx.sym("xu", (1,))
    elif limits == "scalar_tensor":
        xl = cx.sym("xl", ())
        xu = cx.sym("xu", ())
    else:
        xl, xu = -0.75, 2.5
    if swapped:
        xl, xu = xu, xl
    rec = Recorder(n)
    with torch.no_grad():
        res = quad(rec.fcn, xl, xu, n=n)
    cx.claim_true("n evaluations after the probe", len(rec.calls) == n + 1, detail=str(len(rec.calls)))
    xlt = torch.as_tensor(xl, dtype=torch.float64) if not isinstance(xl, torch.Tensor) else xl
    xut = torch.as_tensor(xu, dtype=torch.float64) if not isinstance(xu, torch.Tensor) else xu
    half = (xut - xlt) * 0.5
    mid = (xut + xlt) * 0.5
    for i in range(min(n, len(rec.calls) - 1)):
        cx.claim_eq("node %d is the affine image" % i, rec.calls[i + 1].reshape(-1), (half * float(xi[i]) + mid).reshape(-1))
        cx.claim_eq("weight %d is the scaled reference weight" % i, res.reshape(-1)[i:i + 1], (half * float(om[i])).reshape(-1))
    return "ok"


def limit_dtypes(cx, n=2, case="f32_upper"):
    """limits given as one-element tensors of another dtype than the integrand (float32 / int64 holding exactly representable
    values): the rule must be applied in the integrand's precision.  Differential against the same call with float64 limits;
    the evaluation points and the result must carry the integrand's dtype (in the symbolic run this dtype tag is what decides,
    values are exact reals; in the float64 replay the values differ at 1e-7 when the nodes are rounded to float32)."""
    a = cx.sym("a", (1,))
    lo, hi = 0.5, 2.5
    if case == "f32_upper":
        xl, xu = lo, cx.const(torch.tensor([hi], dtype=torch.float32), dtype=torch.float32)
    elif case == "f32_both":
        xl = cx.const(torch.tensor([lo], dtype=torch.float32), dtype=torch.float32)
        xu = cx.const(torch.tensor([hi], dtype=torch.float32), dtype=torch.float32)
    elif case == "int_upper":
        lo, hi = 0.5, 2.0
        xl, xu = lo, cx.const(torch.tensor([2], dtype=torch.int64), dtype=torch.int64)
    else:
        raise KeyError(case)
    seen = []

    def f(x, a_):
        seen.append(getattr(x, "dtype", None))      # the probe call may receive the python number
        return a_ * x ** (2 * n - 1) + x
    with torch.no_grad():
        res = quad(f, xl, xu, params=(a,), n=n)
        nprobe = 1
        pts = list(seen[nprobe:])
        ref = quad(lambda x, a_: a_ * x ** (2 * n - 1) + x, cx.const(torch.tensor([lo], dtype=torch.float64)),
                   cx.const(torch.tensor([hi], dtype=torch.float64)), params=(a,), n=n)
    cx.claim_true("result has the integrand's dtype", res.dtype == torch.float64, detail=str(res.dtype))
    cx.claim_true("the integrand is evaluated at points of its own precision", len(pts) == n and all(d == torch.float64 for d in pts),
                  detail=str(pts))
    cx.claim_eq("same value as with float64 limits", res, ref, tol=1e-12)
    return "ok"


def constant_integrand(cx, n=2, how="param"):
    """degree-0 integrands that hand back an EXISTING tensor (their stored coefficient) instead of computing a new one: the
    result is c*(xu-xl) and the caller's tensor is left untouched"""
    c = cx.sym("c", (2,))
    xl = cx.sym("xl", ())
    xu = cx.sym("xu", ())
    snapshot = c.clone()
    with torch.no_grad():
        if how == "param":
            res = quad(lambda x, c_: c_, xl, xu, params=(c,), n=n)
        else:
            res = quad(lambda x: c, xl, xu, n=n)
    xi, om = _reference_rule(n)
    wsum = sum(float(w) for w in om)        # = 2 up to 1e-16 (checked exactly in the rule scenarios)
    ref = sum(snapshot * ((xu - xl) * 0.5 * float(w)) for w in om)
    cx.claim_eq("integral of a constant = c * sum of the scaled reference weights", res, ref)
    cx.claim_eq("the caller's tensor is unchanged", c, snapshot)
    return "ok"


def infinite(cx, n=2, which="both"):
    """x = tan(t) substitution: points tan(t_i), weights omega_i*(tu-tl)/2 / cos(t_i)^2"""
    xi, om = _reference_rule(n)
    inf = float("inf")
    if which == "both":
        xl, xu = -inf, inf
        xlt, xut = torch.tensor(-inf, dtype=torch.float64), torch.tensor(inf, dtype=torch.float64)
    elif which == "upper":
        xl = cx.sym("xl", (1,))
        xu = inf
        xlt, xut = xl, torch.tensor([inf], dtype=torch.float64)
    else:
        xl = -inf
        xu = cx.sym("xu", (1,))
        xlt, xut = torch.tensor([-inf], dtype=torch.float64), xu
    rec = Recorder(n)
    with torch.no_grad():
        res = quad(rec.fcn, xl, xu, n=n)
        tl, tu = torch.atan(xlt), torch.atan(xut)
        half = (tu - tl) * 0.5
        mid = (tu + tl) * 0.5
        cx.claim_true("n evaluations after the probe", len(rec.calls) == n + 1, detail=str(len(rec.calls)))
        for i in range(min(n, len(rec.calls) - 1)):
            t = half * float(xi[i]) + mid
            cx.claim_eq("node %d = tan(affine image in t)" % i, rec.calls[i + 1].reshape(-1), torch.tan(t).reshape(-1))
            sec = 1. / torch.cos(t)
            cx.claim_eq("weight %d = omega*(tu-tl)/2*sec^2" % i, res.reshape(-1)[i:i + 1],
                        (half * float(om[i]) * sec * sec).reshape(-1))
    return "ok"


def tuple_and_linear(cx, n=2):
    """tuple-valued integrands are integrated component-wise; quad is linear in the integrand; adjacent intervals add"""
    c = cx.sym("c", (4,))
    d = cx.sym("d", (3,))
    xl = cx.sym("xl", (1,))
    xm = cx.sym("xm", (1,))
    xu = cx.sym("xu", (1,))

    def p(x):
        return c[0] + c[1] * x + c[2] * x * x + c[3] * x * x * x

    def q(x):
        return d[0] + d[1] * x + d[2] * x * x
    with torch.no_grad():
        both = quad(lambda x: (p(x), q(x) * torch.ones(2, dtype=torch.float64)), xl, xu, n=n)
        ip = quad(p, xl, xu, n=n)
        iq = quad(q, xl, xu, n=n)
        cx.claim_true("tuple output has two entries", isinstance(both, (tuple, list)) and len(both) == 2)
        cx.claim_eq("component 0", both[0], ip)
        cx.claim_eq("component 1", both[1], iq * torch.ones(2, dtype=torch.float64))
        s = cx.sym("s", ())
        lin = quad(lambda x: p(x) * s + q(x), xl, xu, n=n)
        cx.claim_eq("linear in the integrand", lin, ip * s + iq)
    return "ok"


def configs(tier):
    cfgs = []

    def add(id_, scenario, opts=None, **params):
        cfgs.append({"id": id_, "scenario": scenario, "params": params, "opts": opts or {}})

    nmax = 4 if tier == "quick" else 8
    for n in range(1, nmax + 1):
        add("rule/n%d/tensor" % n, rule, n=n, limits="tensor")
        add("rule/n%d/tensor/swapped" % n, rule, n=n, limits="tensor", swapped=True)
    add("rule/n3/scalar_tensor", rule, n=3, limits="scalar_tensor")
    add("rule/n2/numbers", rule, n=2, limits="numbers")
    add("rule/n3/numbers/swapped", rule, n=3, limits="numbers", swapped=True)
    for which in ("both", "upper", "lower"):
        add("infinite/n2/%s" % which, infinite, n=2, which=which)
    add("infinite/n3/both", infinite, n=3, which="both")
    add("constant_integrand/n2/param", constant_integrand, n=2, how="param")
    add("constant_integrand/n3/closure", constant_integrand, n=3, how="closure")
    add("constant_integrand/n1/param", constant_integrand, n=1, how="param")
    for case in ("f32_upper", "f32_both", "int_upper"):
        add("limit_dtypes/n3/%s" % case, limit_dtypes, n=3, case=case)
    add("tuple_linear/n1", tuple_and_linear, n=1)
    add("tuple_linear/n2", tuple_and_linear, n=2)
    return cfgs
