"""C02 - gradients through solve equal the derivative of the exact solution map."""
import torch
import xitorch
from xitorch import LinearOperator
from xitorch.linalg import solve

from harness.base import grads, zero_if_none
from harness.linops import build_operator, nmats

PROPERTY = "C02"
DEFAULT_OPTS = {"validate": 2, "timeout_ms": 15000, "budget_s": 420, "max_paths": 60}

META = {
    "bounds": "n=2 (n=3 in the thorough tier), ncols<=2, batch extents <=2; leaves (matrix entries of A, the Cholesky-type "
              "factor behind M, E, B) and cotangents fully symbolic, real and complex; first order for every configuration, second "
              "order (gradient of a contraction of the first-order gradients) for the core ones",
    "outside": "second derivatives taken twice w.r.t. the factor of M (mixed ones are covered); backward solves by an iterative method (the adjoint system handed to it is the one checked here; its "
               "convergence is C01's claim), n>3, float32, rounding",
    "assumptions": ["A - e_j M nonsingular", "M = L L^H with positive diagonal (planted Cholesky factor); M's gradient is compared at "
                    "the leaves behind this symmetric parametrisation"],
}


def _H(m):
    return m.transpose(-2, -1).conj()


def _mk_M_leaves(cx, n, complex_, concrete=False):
    if concrete:
        # M fixed at one SPD point (its factor still is an autograd leaf): keeps second-order claims within reach
        vals = torch.tensor([[0.0, 0.0, 0.0], [0.5, 0.0, 0.0], [-0.25, 0.75, 0.0]], dtype=torch.float64)[:n, :n]
        if complex_:
            vals = vals + 1j * torch.tensor([[0.0, 0.0, 0.0], [0.25, 0.0, 0.0], [0.5, -0.5, 0.0]], dtype=torch.float64)[:n, :n]
        l = cx.const(vals, dtype=vals.dtype).requires_grad_()
        ld = cx.const(torch.tensor([1.0, 1.5, 0.75], dtype=torch.float64)[:n]).requires_grad_()
        return l, ld
    l = cx.sym("l", (n, n), complex_=complex_, requires_grad=True)
    ld = cx.sym("ld", (n,), positive=True, lo=0.5, hi=2, requires_grad=True)
    return l, ld


def _M_from(cx, l, ld, plant=True):
    Lt = torch.tril(l, diagonal=-1) + torch.diag_embed(ld).to(l.dtype)
    M = torch.matmul(Lt, _H(Lt))
    if plant:
        cx.plant("cholesky", M, Lt)
    return M


def _reference(Amat, B, E, M):
    """dense reference built column by column from the same leaves"""
    if E is None:
        return torch.linalg.solve(Amat, B)
    cols = []
    ncols = B.shape[-1]
    for j in range(ncols):
        K = Amat - (M if M is not None else torch.eye(Amat.shape[-1], dtype=Amat.dtype)) * E[..., j]
        cols.append(torch.linalg.solve(K, B[..., j:j + 1]))
    return torch.cat(cols, dim=-1)


def closed_form(A, B, E=None, M=None, **kw):
    """a caller-supplied method that computes the answer without any autograd graph"""
    with torch.no_grad():
        Am = A.fullmatrix()
        Mm = M.fullmatrix() if M is not None else None
        return _reference(Am, B, E, Mm).detach()


def gradient(cx, n=2, ncols=1, method="custom_exactsolve", opkind="dense", withE=False, withM=False, complex_=False,
             second=False, bck_method=None, batchB=(), concreteM=False, concreteA=False, frozen=(), history=None):
    if concreteA:
        # A fixed at one (non-symmetric, non-singular) point; it still is an autograd leaf
        av = torch.tensor([[1.5, -0.5, 0.25], [0.75, 2.0, -1.0], [0.5, 0.25, 1.25]], dtype=torch.float64)[:n, :n]
        if complex_:
            av = av + 1j * torch.tensor([[0.5, 0.25, -0.5], [-0.75, 0.0, 0.5], [0.25, 1.0, -0.25]], dtype=torch.float64)[:n, :n]
        mats = [cx.const(av * (i + 1), dtype=av.dtype).requires_grad_() for i in range(nmats(opkind))]
    else:
        mats = [cx.sym("a%d" % i, (n, n), complex_=complex_, requires_grad=True) for i in range(nmats(opkind))]
    leaves = list(mats)
    use_mats = mats
    if opkind.startswith("herm"):
        use_mats = [(mats[0] + _H(mats[0])) * 0.5]
    # frozen: inputs that do NOT require grad ("a", "b", "e"): the others must still get their exact gradients
    if "a" in frozen:
        mats = [m.detach() for m in mats]
        use_mats = [m.detach() for m in use_mats]
        leaves = []
    B = cx.sym("b", batchB + (n, ncols), complex_=complex_, requires_grad="b" not in frozen)
    if "b" not in frozen:
        leaves.append(B)
    E = None
    if withE:
        E = cx.sym("e", (ncols,), complex_=complex_, requires_grad="e" not in frozen)
        if "e" not in frozen:
            leaves.append(E)
    M = Mop = None
    if withM:
        l, ld = _mk_M_leaves(cx, n, complex_, concrete=concreteM)
        leaves += [l, ld]
        M = _M_from(cx, l, ld)
        Mop = LinearOperator.m(M, is_hermitian=True)
    A, Amat = build_operator(opkind, use_mats)
    kw = {}
    if method == "closed_form":
        kw["method"] = closed_form
    elif method is not None:
        kw["method"] = method
    if bck_method is not None:
        kw["bck_options"] = {"method": bck_method}
    if not cx.symbolic:
        # seeded concrete inputs (translator validation, replays): skip (nearly) singular systems, where float64 and exact
        # arithmetic legitimately disagree; the symbolic run carries the assumption det != 0 on its own
        with torch.no_grad():
            for j in range(ncols):
                Kj = Amat.detach() if E is None else Amat.detach() - E.detach()[..., j] * (M.detach() if M is not None else torch.eye(n, dtype=Amat.dtype))
                cx.assume(torch.linalg.det(Kj).abs() > 1e-3, note="A - e_j M well away from singular on concrete inputs")
    X = solve(A, B, E, Mop, **kw)
    Xr = _reference(Amat, B, E, M)
    cx.claim_eq("X", X, Xr)
    if concreteM and second:
        gv = torch.tensor([((3 * k) % 7 - 3) / 2.0 for k in range(X.numel())], dtype=torch.float64).reshape(tuple(X.shape))
        G = cx.const(gv + (0.5j if complex_ else 0.0), dtype=torch.complex128 if complex_ else torch.float64)
    else:
        G = cx.sym("g", tuple(X.shape), complex_=complex_)
    loss = (G.conj() * X).sum().real if complex_ else (G * X).sum()
    lossr = (G.conj() * Xr).sum().real if complex_ else (G * Xr).sum()
    if history in ("plain_first", "resolve"):
        # history of backward passes on the same operator object: a plain (non-recording) pass first - through this result,
        # or through an earlier solve with the same operator - must not change what the recording pass returns afterwards
        if history == "resolve":
            B0 = B.detach() * 0.5 + 1.0
            X0 = solve(A, B0, E, Mop, **kw)
            l0 = (X0 * X0.conj()).real.sum()
        else:
            l0 = loss
        g0 = grads(l0, leaves, create_graph=False)
        if history == "plain_first":
            g2p = grads(lossr, leaves, create_graph=False)
            for i, (x, y) in enumerate(zip(g0, g2p)):
                cx.claim_eq("plain pass: d/d(leaf %d)" % i, x, y)
    g1 = grads(loss, leaves, create_graph=second)
    g2 = grads(lossr, leaves, create_graph=second)
    names = (["a%d" % i for i in range(len(mats))] if "a" not in frozen else []) + (["b"] if "b" not in frozen else []) + \
        (["e"] if withE and "e" not in frozen else []) + (["l", "ld"] if withM else [])
    for nm, x, y, lf in zip(names, g1, g2, leaves):
        cx.claim_eq("d/d" + nm, x, y)
    if second:
        ga1 = zero_if_none(g1, leaves)
        ga2 = zero_if_none(g2, leaves)
        # the second-order contraction uses fixed rational weights (fewer symbols; the identity stays symbolic in
        # every leaf and in the first-order cotangent)
        W = []
        for i, lf in enumerate(leaves):
            vals = torch.tensor([((7 * i + 3 * k) % 11 - 5) / 4.0 for k in range(lf.numel())], dtype=torch.float64)
            if complex_:
                vals = vals + 1j * torch.tensor([((5 * i + 2 * k) % 7 - 3) / 4.0 for k in range(lf.numel())], dtype=torch.float64)
            W.append(cx.const(vals.reshape(tuple(lf.shape)), dtype=vals.dtype))
        c1 = sum(((w.conj() * g).sum().real if complex_ else (w * g).sum()) for w, g in zip(W, ga1))
        c2 = sum(((w.conj() * g).sum().real if complex_ else (w * g).sum()) for w, g in zip(W, ga2))
        # with M, the contraction (which contains the first-order gradients w.r.t. M's factor) is differentiated
        # w.r.t. A, B, E only: d2/d(factor)^2 is beyond the solver's reach (stated in the bounds)
        nsecond = len(leaves) - 2 if withM else len(leaves)
        h1 = grads(c1, leaves[:nsecond])
        h2 = grads(c2, leaves[:nsecond])
        for nm, x, y in zip(names, h1, h2):
            cx.claim_eq("d2/d" + nm, x, y)
    return "ok"


def no_influence(cx, n=2, method="custom_exactsolve"):
    """inputs that do not influence X receive no (or zero) gradient: M without E, and a parameter of an operator
    that does not enter its products"""

    class WithUnused(LinearOperator):
        def __init__(self, m, extra):
            super().__init__(shape=m.shape, dtype=m.dtype, device=m.device)
            self.m_ = m
            self.extra = extra

        def _mv(self, x):
            return torch.matmul(self.m_, x.unsqueeze(-1)).squeeze(-1)

        def _rmv(self, x):
            return torch.matmul(self.m_.transpose(-2, -1).conj(), x.unsqueeze(-1)).squeeze(-1)

        def _getparamnames(self, prefix=""):
            return [prefix + "m_", prefix + "extra"]

    a = cx.sym("a0", (n, n), requires_grad=True)
    extra = cx.sym("extra", (n,), requires_grad=True)
    B = cx.sym("b", (n, 1), requires_grad=True)
    l, ld = _mk_M_leaves(cx, n, False)
    M = _M_from(cx, l, ld)
    A = WithUnused(a, extra)
    import warnings
    with warnings.catch_warnings():
        warnings.simplefilter("ignore")
        X = solve(A, B, None, LinearOperator.m(M, is_hermitian=True), method=method)
    cx.claim_eq("X", X, torch.linalg.solve(a, B))
    G = cx.sym("g", tuple(X.shape))
    g = grads((G * X).sum(), [a, extra, B, l, ld])
    gr = grads((G * torch.linalg.solve(a, B)).sum(), [a, B])
    cx.claim_eq("d/da", g[0], gr[0])
    cx.claim_eq("d/db", g[2], gr[1])
    cx.claim_eq("d/dextra is zero", g[1], None if g[1] is None else torch.zeros_like(extra))
    cx.claim_eq("d/dl is zero (M ignored without E)", g[3], None if g[3] is None else torch.zeros_like(l))
    cx.claim_eq("d/dld is zero (M ignored without E)", g[4], None if g[4] is None else torch.zeros_like(ld))
    return "ok"


def configs(tier):
    cfgs = []

    def add(id_, scenario, opts=None, **params):
        cfgs.append({"id": id_, "scenario": scenario, "params": params, "opts": opts or {}})

    for method in ("exactsolve", "custom_exactsolve", "closed_form"):
        for em in ("A", "AE", "AEM"):
            add("grad/%s/dense/%s/n2c1/2nd" % (method, em), gradient, n=2, ncols=1, method=method, opkind="dense",
                withE=em != "A", withM=em == "AEM", second=True, concreteM=True)
            if em == "AEM":
                add("grad/%s/dense/AEM/n2c1" % method, gradient, n=2, ncols=1, method=method, opkind="dense", withE=True,
                    withM=True)
    add("grad/custom_exactsolve/dense/AEM/n2c2", gradient, n=2, ncols=2, method="custom_exactsolve", opkind="dense", withE=True,
        withM=True)
    add("grad/custom_exactsolve/dense/AE/n2c1/complex", gradient, n=2, ncols=1, method="custom_exactsolve", opkind="dense",
        withE=True, complex_=True)
    add("grad/custom_exactsolve/dense/A/n2c1/complex/2nd", gradient, n=2, ncols=1, method="custom_exactsolve", opkind="dense",
        complex_=True, second=True)
    # second order through the custom backward with operators that are NOT linear in their parameters
    add("grad/custom_exactsolve/matmul/A/n2c1/2nd", gradient, n=2, ncols=1, method="custom_exactsolve", opkind="matmul", second=True)
    add("grad/closed_form/matmul/AE/n2c1/2nd", gradient, n=2, ncols=1, method="closed_form", opkind="matmul", withE=True, second=True)
    add("grad/custom_exactsolve/mvonly/A/n2c1/2nd", gradient, n=2, ncols=1, method="custom_exactsolve", opkind="mvonly", second=True)
    add("grad/custom_exactsolve/nonlinear/A/n2c1/2nd", gradient, n=2, ncols=1, method="custom_exactsolve", opkind="nonlinear",
        second=True)
    # histories: a plain backward pass (same result / earlier solve with the same operator object) before the recording one
    add("grad/custom_exactsolve/dense/A/n2c1/2nd/plain_first", gradient, n=2, ncols=1, method="custom_exactsolve", opkind="dense",
        second=True, history="plain_first")
    add("grad/closed_form/mvonly/A/n2c1/2nd/plain_first", gradient, n=2, ncols=1, method="closed_form", opkind="mvonly",
        second=True, history="plain_first")
    add("grad/custom_exactsolve/dense/AE/n2c1/2nd/resolve", gradient, n=2, ncols=1, method="custom_exactsolve", opkind="dense",
        withE=True, second=True, history="resolve")
    add("grad/custom_exactsolve/matmul/A/n2c1/2nd/resolve", gradient, n=2, ncols=1, method="custom_exactsolve", opkind="matmul",
        second=True, history="resolve")
    for opkind in ("mvonly", "mvrmv", "mvmm", "all", "herm", "herm_mv", "add", "sub", "mul", "matmul", "adjoint", "add_dense"):
        add("grad/custom_exactsolve/%s/AE/n2c1" % opkind, gradient, n=2, ncols=1, method="custom_exactsolve", opkind=opkind,
            withE=True)
    # complex composed operators with a dense-wrapped component next to a matrix-free one (adjoint through rmv of each part)
    for opkind in ("add_dense", "add", "sub"):
        add("grad/custom_exactsolve/%s/A/n2c1/complex" % opkind, gradient, n=2, ncols=1, method="custom_exactsolve", opkind=opkind,
            complex_=True)
    for opkind in ("mvonly", "matmul", "mul", "adjoint"):
        add("grad/closed_form/%s/A/n2c1/complex" % opkind, gradient, n=2, ncols=1, method="closed_form", opkind=opkind,
            complex_=True)
        add("grad/default/%s/AE/n2c1/2nd" % opkind, gradient, n=2, ncols=1, method=None, opkind=opkind, withE=True, second=True)
    # some inputs constant (do not require grad): the remaining gradients are unchanged
    add("grad/custom_exactsolve/dense/AE/n2c1/B_constant/2nd", gradient, n=2, ncols=1, method="custom_exactsolve", opkind="dense",
        withE=True, frozen=("b",), second=True)
    add("grad/custom_exactsolve/dense/AE/n2c2/A_constant", gradient, n=2, ncols=2, method="custom_exactsolve", opkind="dense",
        withE=True, frozen=("a",))
    add("grad/custom_exactsolve/dense/AEM/n2c1/E_constant", gradient, n=2, ncols=1, method="custom_exactsolve", opkind="dense",
        withE=True, withM=True, frozen=("e",))
    add("grad/closed_form/mvonly/AE/n2c1/AB_constant", gradient, n=2, ncols=1, method="closed_form", opkind="mvonly",
        withE=True, frozen=("a", "b"))
    add("grad/custom_exactsolve/dense/AE/Bbatch", gradient, n=2, ncols=1, method="custom_exactsolve", opkind="dense", withE=True,
        batchB=(2,))
    add("grad/custom_exactsolve/dense/AEM/bck_custom", gradient, n=2, ncols=1, method="custom_exactsolve", opkind="dense",
        withE=True, withM=True, bck_method="custom_exactsolve")
    add("noinfluence/custom_exactsolve", no_influence, method="custom_exactsolve")
    add("noinfluence/exactsolve", no_influence, method="exactsolve")
    if tier == "thorough":
        big = {"budget_s": 1700, "timeout_ms": 60000}
        add("grad/closed_form/dense/AEM/n2c1/complex/Afixed", gradient, n=2, ncols=1, method="closed_form", opkind="dense",
            withE=True, withM=True, complex_=True, concreteA=True, opts=big)
        add("grad/custom_exactsolve/dense/AEM/n2c1/complex/Mfixed", gradient, n=2, ncols=1, method="custom_exactsolve",
            opkind="dense", withE=True, withM=True, complex_=True, concreteM=True, opts=big)
        add("grad/exactsolve/dense/AEM/n2c1/complex/Afixed", gradient, n=2, ncols=1, method="exactsolve", opkind="dense",
            withE=True, withM=True, complex_=True, concreteA=True, opts=big)
        add("grad/custom_exactsolve/dense/AEM/n3c1", gradient, n=3, ncols=1, method="custom_exactsolve", opkind="dense", withE=True,
            withM=True, opts=big)
        add("grad/closed_form/dense/AE/n3c2", gradient, n=3, ncols=2, method="closed_form", opkind="dense", withE=True, opts=big)
        add("grad/custom_exactsolve/matmul/AE/n3c1", gradient, n=3, ncols=1, method="custom_exactsolve", opkind="matmul", withE=True,
            opts=big)
        add("grad/custom_exactsolve/dense/AEM/n2c2/2nd", gradient, n=2, ncols=2, method="custom_exactsolve", opkind="dense",
            withE=True, withM=True, second=True, opts=big)
        add("grad/closed_form/dense/AEM/n2c1/complex", gradient, n=2, ncols=1, method="closed_form", opkind="dense", withE=True,
            withM=True, complex_=True, opts=big)
        add("grad/custom_exactsolve/dense/AE/n2c1/complex/2nd", gradient, n=2, ncols=1, method="custom_exactsolve", opkind="dense",
            withE=True, complex_=True, second=True, opts=big)
        for opkind in ("mvonly", "herm_mv", "add", "matmul"):
            add("grad/custom_exactsolve/%s/AEM/n2c1/complex" % opkind, gradient, n=2, ncols=1, method="custom_exactsolve",
                opkind=opkind, withE=True, withM=True, complex_=True, opts=big)
    return cfgs
