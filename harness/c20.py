"""C20 - Packer round-trips any nested structure, preserving aliasing and its input."""
import copy

import torch
import xitorch
from xitorch import Packer

PROPERTY = "C20"
DEFAULT_OPTS = {"validate": 4, "timeout_ms": 5000, "budget_s": 300, "max_paths": 2000}

META = {
    "level": "exploration",
    "bounds": "(1) _get_unique_idxs on lists of n<=5 (thorough: 7) objects with SYMBOLIC identities (every == on identities forks in the "
              "explorer, z3 prunes infeasible aliasing patterns and proves the index-map claims per path); (2) structures with 3 or 4 tensor slots in 7 nesting templates (list, dict, attribute object, list in dict, object in "
              "list, with tuples and mutable/immutable non-tensor leaves interleaved, a bare tensor); ALL aliasing patterns of the slots "
              "(restricted growth strings: 5 for 3 slots, 15 for 4) and 6 call histories (unique / non-unique x list / flat-tensor "
              "interface, repeated reconstruction, construct-before-get) are selected by symbolic selectors that the path explorer "
              "forks exhaustively; tiny concrete tensors of different shapes",
    "outside": "deeper nesting, more than 4 slots (7 for the index maps), structures with reference cycles",
    "assumptions": ["layer 1: the module-level name id of xitorch._core.packer is rebound to return objects whose hashes collide and whose "
                    "== is symbolic, so the real dict lookup compares identities through the solver",
                    "layer 2: per-path checks are concrete (object identity, structure equality); the explorer guarantees that every "
                    "combination within the bound is visited (honest note: exhaustive enumeration driven by the path explorer, no "
                    "arithmetic reasoning is involved)",
                    "CrossHair was tried on _get_unique_idxs / Uniquifier with symbolic identity lists but did not confirm within "
                    "the time budget, so it is not part of the claim"],
}


class Obj:
    def __init__(self, **kw):
        self.__dict__.update(kw)

    def __eq__(self, o):
        return isinstance(o, Obj) and self.__dict__.keys() == o.__dict__.keys()


def _rgs(n):
    """all restricted growth strings of length n (= all aliasing patterns of n slots)"""
    out = []

    def rec(pref, mx):
        if len(pref) == n:
            out.append(tuple(pref))
            return
        for v in range(mx + 2):
            rec(pref + [v], max(mx, v))
    rec([0], 0)
    return out


def _build(template, t):
    """structure with the tensor slots t[0..] in traversal order; returns (structure, number of slots used)"""
    if template == "list":
        return [t[0], 1.5, t[1], "s", t[2]], 3
    if template == "dict":
        return {"a": t[0], "n": [1, 2], "b": t[1], "c": t[2]}, 3
    if template == "object":
        return Obj(p=t[0], q=t[1], name="x", r=t[2]), 3
    if template == "list_in_dict":
        return {"k": [t[0], (1, 2), t[1]], "m": {"z": t[2], "w": None}, "v": t[3]}, 4
    if template == "object_in_list":
        return [Obj(p=t[0], inner=[t[1], {"deep": t[2]}]), 3, t[3]], 4
    if template == "tuple_leaf":
        # tensors inside a tuple are not slots (tuples are leaves)
        return [t[0], (t[1],), {"x": t[1], "y": [t[2]]}], 3
    if template == "bare":
        return t[0], 1
    if template == "opaque_leaves":
        # mutable non-tensor content the traversal does not descend into: a list inside a tuple, a set, a bytearray, an ndarray
        import numpy as np
        return [t[0], ([1, 2], "x"), {"s": {1, 2}, "ba": bytearray(b"ab"), "t": t[1]}, Obj(arr=np.arange(3), z=t[2])], 3
    raise KeyError(template)


def _slots(obj):
    """tensor slots in traversal order with accessors"""
    res = []

    def rec(b):
        if isinstance(b, torch.Tensor):
            res.append(b)
        elif isinstance(b, list):
            for e in b:
                rec(e)
        elif isinstance(b, dict):
            for e in b.values():
                rec(e)
        elif hasattr(b, "__dict__"):
            for e in b.__dict__.values():
                rec(e)
    rec(obj)
    return res


def _shape_of(b):
    if isinstance(b, torch.Tensor):
        return "T"
    if isinstance(b, list):
        return ["L"] + [_shape_of(e) for e in b]
    if isinstance(b, dict):
        return ["D"] + [(k, _shape_of(v)) for k, v in b.items()]
    if isinstance(b, tuple):
        return ("tuple", len(b))
    if hasattr(b, "__dict__"):
        return ["O"] + [(k, _shape_of(v)) for k, v in b.__dict__.items()]
    return ("leaf", repr(b))


def _opaque_mutables(b, acc, inside_tuple=False):
    """mutable non-tensor objects at any depth, including those behind tuples (which the Packer treats as leaves)"""
    import numpy as np
    if isinstance(b, torch.Tensor):
        return acc
    if isinstance(b, (set, bytearray, np.ndarray)):
        acc.append(b)
    elif isinstance(b, tuple):
        for e in b:
            _opaque_mutables(e, acc, True)
    elif isinstance(b, list):
        if inside_tuple:
            acc.append(b)
        for e in b:
            _opaque_mutables(e, acc, inside_tuple)
    elif isinstance(b, dict):
        if inside_tuple:
            acc.append(b)
        for e in b.values():
            _opaque_mutables(e, acc, inside_tuple)
    elif hasattr(b, "__dict__"):
        for e in b.__dict__.values():
            _opaque_mutables(e, acc, inside_tuple)
    return acc


def _same_value(a, b):
    import numpy as np
    if isinstance(a, np.ndarray):
        return isinstance(b, np.ndarray) and a.shape == b.shape and bool((a == b).all())
    return type(a) is type(b) and a == b


def _mutate(x):
    import numpy as np
    if isinstance(x, set):
        x.add(99)
    elif isinstance(x, bytearray):
        x.extend(b"!")
    elif isinstance(x, np.ndarray):
        x += 7
    elif isinstance(x, list):
        x.append(99)
    elif isinstance(x, dict):
        x["__new__"] = 99


def _mutable_leaves(b, acc):
    if isinstance(b, list):
        if all(not isinstance(e, (torch.Tensor, list, dict)) and not hasattr(e, "__dict__") for e in b) and b:
            acc.append(b)
        for e in b:
            _mutable_leaves(e, acc)
    elif isinstance(b, dict):
        for e in b.values():
            _mutable_leaves(e, acc)
    elif hasattr(b, "__dict__") and not isinstance(b, torch.Tensor):
        for e in b.__dict__.values():
            _mutable_leaves(e, acc)
    return acc


TEMPLATES = ["list", "dict", "object", "list_in_dict", "object_in_list", "tuple_leaf", "bare", "opaque_leaves"]
HISTORIES = ["unique_list", "unique_flat", "nonunique_list", "nonunique_flat", "repeat", "construct_first"]


def packer(cx, template="list"):
    shapes = [(2,), (1, 2), (3,), (2, 2)]
    nslots_max = 4
    base = [torch.arange(1, 1 + int(torch.Size(s).numel()), dtype=torch.float64).reshape(s) * (i + 1) for i, s in enumerate(shapes)]
    _, nslots = _build(template, base)
    pats = _rgs(nslots)
    pat = pats[cx.choose(len(pats), "alias_pattern")]
    # aliased slots must share the tensor object (hence the shape)
    pool = []
    slots = []
    for i in range(nslots):
        if pat[i] == len(pool):
            pool.append(base[i])
        slots.append(pool[pat[i]])
    obj, _ = _build(template, slots + base[nslots:])
    snapshot_shape = _shape_of(obj)
    snapshot_ids = [id(t) for t in _slots(obj)]
    hist = HISTORIES[cx.choose(len(HISTORIES), "history")]
    pk = Packer(obj)
    if template == "tuple_leaf":
        expected_slots = [slots[0], slots[1], slots[2]]
    else:
        expected_slots = slots
    n_unique = len(set(id(t) for t in expected_slots))

    def raises(f):
        try:
            f()
        except (RuntimeError, AssertionError):
            return True
        return False
    if hist == "construct_first":
        news = [t + 10 for t in expected_slots]
        cx.claim_true("construct_from_tensor_list before get_param_tensor_list is rejected",
                      raises(lambda: pk.construct_from_tensor_list(news, unique=False)))
        cx.claim_true("construct_from_tensor before get_param_tensor is rejected",
                      raises(lambda: pk.construct_from_tensor(torch.zeros(3, dtype=torch.float64))))
        return "construct_first"
    unique = hist in ("unique_list", "unique_flat", "repeat")
    lst = pk.get_param_tensor_list(unique=unique)
    want = []
    for t in expected_slots:
        if not unique or all(t is not w for w in want):
            want.append(t)
    cx.claim_true("tensors listed in traversal order%s" % (" (first occurrences only)" if unique else ""),
                  len(lst) == len(want) and all(a is b for a, b in zip(lst, want)), detail="%d vs %d" % (len(lst), len(want)))
    news = [torch.zeros_like(t) + 100 + k for k, t in enumerate(lst)]
    if hist in ("unique_flat", "nonunique_flat"):
        flat = pk.get_param_tensor(unique=unique)
        cx.claim_true("flat tensor is the concatenation", flat is not None and bool(torch.equal(flat.reshape(-1), torch.cat([t.reshape(-1) for t in lst]))))
        newflat = torch.cat([t.reshape(-1) for t in news]) if len(news) > 1 else news[0]
        rebuilt = pk.construct_from_tensor(newflat, unique=unique)
        same_obj = lambda a, b: bool(torch.equal(a, b))
    else:
        rebuilt = pk.construct_from_tensor_list(news, unique=unique)
        same_obj = lambda a, b: a is b
    cx.claim_true("rebuilt structure has the same nesting", _shape_of(rebuilt) == snapshot_shape,
                  detail="%s vs %s" % (_shape_of(rebuilt), snapshot_shape))
    rs = _slots(rebuilt)
    # slot i holds the tensor supplied for it
    ok = len(rs) == len(expected_slots)
    if ok:
        for i, t in enumerate(expected_slots):
            k = [j for j, w in enumerate(lst) if w is t][0] if unique else i
            ok = ok and same_obj(rs[i], news[k])
    cx.claim_true("position i holds the i-th supplied tensor", ok)
    if unique:
        ok = all((rs[i] is rs[j]) == (expected_slots[i] is expected_slots[j]) for i in range(len(rs)) for j in range(len(rs))) \
            if hist != "unique_flat" else all((expected_slots[i] is not expected_slots[j]) or bool(torch.equal(rs[i], rs[j]))
                                              for i in range(len(rs)) for j in range(len(rs)))
        cx.claim_true("aliased positions stay aliased", ok)
    # the original object and the packer are unchanged
    cx.claim_true("original object unchanged", _shape_of(obj) == snapshot_shape and [id(t) for t in _slots(obj)] == snapshot_ids)
    cx.claim_true("the packer still lists the original tensors", all(a is b for a, b in zip(pk.get_param_tensor_list(unique=unique), want)))
    # non-tensor content is copied, not shared
    lo, lr = _mutable_leaves(obj, []), _mutable_leaves(rebuilt, [])
    cx.claim_true("mutable non-tensor leaves are equal copies", len(lo) == len(lr) and all(a == b and a is not b for a, b in zip(lo, lr)))
    oo, orr = _opaque_mutables(obj, []), _opaque_mutables(rebuilt, [])
    cx.claim_true("mutable content behind tuples / sets / arrays is copied too (equal, not shared)",
                  len(oo) == len(orr) and all(_same_value(a, b) and a is not b for a, b in zip(oo, orr)),
                  detail="%d vs %d objects" % (len(oo), len(orr)))
    if isinstance(rebuilt, (list, dict)) or hasattr(rebuilt, "__dict__") and not isinstance(rebuilt, torch.Tensor):
        cx.claim_true("containers are new objects", rebuilt is not obj)
    if hist == "repeat":
        news2 = [torch.zeros_like(t) + 200 + k for k, t in enumerate(lst)]
        rebuilt2 = pk.construct_from_tensor_list(news2, unique=True)
        rs1 = _slots(rebuilt)
        rs2 = _slots(rebuilt2)
        if not isinstance(rebuilt, torch.Tensor):
            cx.claim_true("a second reconstruction returns a new object", rebuilt2 is not rebuilt)
        # history: edit the non-tensor content of the first result in place, rebuild again: the edit is neither in the
        # caller's object nor in the next result
        import copy as _copy
        before = _copy.deepcopy(_opaque_mutables(obj, []) + _mutable_leaves(obj, []))
        for x in _opaque_mutables(rebuilt, []) + _mutable_leaves(rebuilt, []):
            _mutate(x)
        rebuilt3 = pk.construct_from_tensor_list([torch.zeros_like(t) + 300 + k for k, t in enumerate(lst)], unique=True)
        after_o = _opaque_mutables(obj, []) + _mutable_leaves(obj, [])
        after_3 = _opaque_mutables(rebuilt3, []) + _mutable_leaves(rebuilt3, [])
        cx.claim_true("editing a result in place leaves the caller's object and later results untouched",
                      len(before) == len(after_o) == len(after_3)
                      and all(_same_value(a, b) for a, b in zip(before, after_o))
                      and all(_same_value(a, b) for a, b in zip(before, after_3)))
        cx.claim_true("the first reconstruction is not overwritten by the second",
                      all(bool((t >= 100).all() and (t < 200).all()) for t in rs1) and all(bool((t >= 200).all()) for t in rs2))
    # wrong lengths / shapes are rejected
    cx.claim_true("wrong number of tensors rejected", raises(lambda: pk.construct_from_tensor_list(news + [news[0]], unique=unique)))
    if news[0].numel() > 1:
        bad = [news[0].reshape(-1)[:-1]] + news[1:]
        cx.claim_true("wrong shape rejected", raises(lambda: pk.construct_from_tensor_list(bad, unique=unique)))
    return "%s/%s/%s" % (template, "".join(map(str, pat)), hist)


class SymId:
    """stand-in for the value of id(): hashes collide on purpose, so the real dict in _get_unique_idxs falls back to ==,
    and == is a symbolic comparison decided (forked) by the explorer with z3"""
    __slots__ = ("v",)

    def __init__(self, v):
        self.v = v

    def __hash__(self):
        return 0

    def __eq__(self, o):
        return bool(self.v == o.v)

    def __ne__(self, o):
        return not self.__eq__(o)


def unique_idxs(cx, n=4):
    """_get_unique_idxs on a list of n objects whose identities are symbolic: every aliasing pattern is a solver model"""
    from xitorch._core import packer as pmod
    from symtorch.core import band
    import math
    vals = []
    for i in range(n):
        v = cx.scalar("id%d" % i, lo=-2, hi=2)
        if not cx.symbolic:
            c = v.const() if hasattr(v, "const") else v
            v = math.floor(float(c))
        vals.append(v)
    objs = [object() for _ in range(n)]
    table = {id(o): SymId(v) for o, v in zip(objs, vals)}
    real_id = id
    pmod.id = lambda o: table[real_id(o)]
    try:
        uidx, uinv = pmod._get_unique_idxs(objs)
    finally:
        del pmod.id
    cx.claim_true("lengths", len(uinv) == n and 1 <= len(uidx) <= n and all(isinstance(k, int) for k in uidx + uinv))
    cx.claim_true("unique indices strictly increasing", all(a < b for a, b in zip(uidx, uidx[1:])) and uidx[0] == 0)
    cx.claim_true("inverse indices in range", all(0 <= k < len(uidx) for k in uinv))

    def conj(terms):
        r = True
        for t in terms:
            r = band(r, t) if r is not True else t
        return r
    firsts = [vals[j] != vals[k] for k in uidx for j in range(k)]
    if firsts:
        cx.claim("each unique index is a first occurrence (no earlier element has the same identity)", conj(firsts))
    cx.claim("inverse map reproduces every identity", conj([vals[uidx[uinv[i]]] == vals[i] for i in range(n)]))
    dist = [vals[a] != vals[b] for ia, a in enumerate(uidx) for b in uidx[ia + 1:]]
    if dist:
        cx.claim("selected identities pairwise distinct", conj(dist))
    cx.note("pattern=%s" % (uinv,))
    return "".join(map(str, uinv))


def configs(tier):
    cfgs = []
    for n in ((2, 3, 4, 5) if tier == "quick" else (2, 3, 4, 5, 6, 7)):
        cfgs.append({"id": "unique_idxs/n%d" % n, "scenario": unique_idxs, "params": {"n": n},
                     "opts": {"max_paths": 1200, "max_decisions": 400, "budget_s": 1500}})
    for t in TEMPLATES:
        cfgs.append({"id": "packer/%s" % t, "scenario": packer, "params": {"template": t}, "opts": {}})
    return cfgs
