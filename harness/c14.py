"""C14 - Interp1D evaluates the declared interpolant of the samples."""
import numpy as np
import torch
import z3
import xitorch
from xitorch.interpolate import Interp1D

import symtorch
from symtorch import S, T, D, _r
from harness.base import grads

PROPERTY = "C14"
DEFAULT_OPTS = {"validate": 2, "timeout_ms": 20000, "budget_s": 400, "max_paths": 60}

META = {
    "bounds": "3 and 4 knots (5 in the thorough tier) on several fixed non-uniform rational grids (also given unsorted; fully symbolic knot positions for 3 knots in the thorough tier), symbolic "
              "samples y (1-D and a batch of 2), one symbolic query per interval: on every interval the result of the real code is "
              "differentiated in the query point by real autograd; claims: 4th derivative = 0 (cubic), interpolation at the knots, "
              "continuity of S' and S'' at interior knots, the boundary equations of natural / clamped / not-a-knot / periodic, both "
              "internal evaluation formulas identical, y at construction = y at call, linear = chord formula; extrapolation modes nan, "
              "constant (incl. 0), callable, bound with symbolic outside queries, mirror/periodic with concrete ones",
    "outside": "batched knot positions, dozens of knots, rounding",
    "assumptions": ["knot limits of a piece are obtained by substituting the knot for the query symbol in the symbolic result",
                    "periodic data is built with y[-1] the same symbol as y[0] (the code's periodicity test uses torch.allclose)"],
}


def _subst(t, var_tensor, val_tensor):
    """substitute the (single-symbol) entries of var_tensor by the entries of val_tensor in every entry of t"""
    pairs = []
    for v, w in zip(D(var_tensor).reshape(-1), D(val_tensor).reshape(-1)):
        assert isinstance(v.n, z3.ExprRef) and z3.is_const(v.n)
        pairs.append((v.n, _r(w)))

    def f(e):
        n = z3.substitute(e.n, *pairs) if isinstance(e.n, z3.ExprRef) else e.n
        d = z3.substitute(e.d, *pairs) if isinstance(e.d, z3.ExprRef) else e.d
        return S(n, d)
    return T(np.frompyfunc(f, 1, 1)(D(t)), dtype=symtorch.ops.FLOAT)


def _derivs(fn, xq, order):
    """[S, S', ..., S^(order)] at the query points (each output depends on its own query only)"""
    out = [fn(xq)]
    for k in range(order):
        last = out[-1]
        if not last.requires_grad:
            out.append(torch.zeros_like(last))
            continue
        g, = torch.autograd.grad(last.sum(), xq, create_graph=True, allow_unused=True)
        out.append(torch.zeros_like(xq) if g is None else g)
    return out


GRIDS = {
    3: [[-0.5, 0.25, 2.0], [0.0, 1.0, 3.0], [1.0, 1.125, 1.75]],
    4: [[-1.0, -0.25, 0.5, 2.5], [0.0, 0.5, 0.75, 2.0]],
    5: [[-1.0, -0.5, 0.25, 1.0, 3.0]],
    2: [[0.25, 1.5]],
}


def _knots(cx, n, grid=None):
    if grid is not None:
        # fixed non-uniform rational grid (samples and queries stay symbolic)
        return cx.const(torch.tensor(GRIDS[n][grid], dtype=torch.float64))
    x0 = cx.sym("x0", ())
    gaps = cx.sym("gap", (n - 1,), positive=True, lo=0.25, hi=1.5)
    xs = [x0]
    for i in range(n - 1):
        xs.append(xs[-1] + gaps[i])
    return torch.stack(xs)


def spline(cx, n=3, bc="natural", y_at="init", batch=False, grid=0):
    x = _knots(cx, n, grid)
    yshape = (2, n) if batch else (n,)
    if bc == "periodic":
        yfree = cx.sym("y", yshape[:-1] + (n - 1,))
        y = torch.cat([yfree, yfree[..., :1]], dim=-1)
    else:
        y = cx.sym("y", yshape)
    if y_at == "init":
        itp = Interp1D(x, y, method="cspline", bc_type=bc, assume_sorted=True)
        fn = lambda q: itp(q)
    else:
        itp = Interp1D(x, method="cspline", bc_type=bc, assume_sorted=True)
        fn = lambda q: itp(q, y)
    nint = n - 1
    if cx.mode == "sym":
        q = cx.sym("q", (nint,), requires_grad=True)
        for j in range(nint):
            cx.assume((q.detach()[j] > x[j]) & (q.detach()[j] < x[j + 1]), note="one query strictly inside every interval")
        d = _derivs(fn, q, 4)
        left = [_subst(t, q, x[:-1]) for t in d]     # each piece evaluated at its left knot
        right = [_subst(t, q, x[1:]) for t in d]     # ... at its right knot
        cx.claim_eq("cubic on every interval (4th derivative = 0)", d[4], torch.zeros_like(d[4]))
    else:
        ql = torch.nextafter(x[:-1], x[1:]).detach().clone().requires_grad_() if cx.mode == "real" else None
        if cx.mode != "real":
            # shim concrete mode: nudge by a tiny rational instead of nextafter
            ql = (x[:-1] + (x[1:] - x[:-1]) * 1e-12).detach().clone().requires_grad_()
        qr = x[1:].detach().clone().requires_grad_()
        left = _derivs(fn, ql, 4)
        right = _derivs(fn, qr, 4)
        cx.claim_eq("cubic on every interval (4th derivative = 0)", left[4], torch.zeros_like(left[4]), tol=1e-5)
    tol = 1e-5
    cx.claim_eq("interpolates the samples (left knots)", left[0], y[..., :-1].expand_as(left[0]), tol=tol)
    cx.claim_eq("interpolates the samples (right knots)", right[0], y[..., 1:].expand_as(right[0]), tol=tol)
    if nint >= 2:
        cx.claim_eq("S' continuous at interior knots", right[1][..., :-1], left[1][..., 1:], tol=tol)
        cx.claim_eq("S'' continuous at interior knots", right[2][..., :-1], left[2][..., 1:], tol=tol)
    if bc == "natural":
        cx.claim_eq("natural: S''(x_first) = 0", left[2][..., 0], torch.zeros_like(left[2][..., 0]), tol=tol)
        cx.claim_eq("natural: S''(x_last) = 0", right[2][..., -1], torch.zeros_like(right[2][..., -1]), tol=tol)
    elif bc == "clamped":
        cx.claim_eq("clamped: S'(x_first) = 0", left[1][..., 0], torch.zeros_like(left[1][..., 0]), tol=tol)
        cx.claim_eq("clamped: S'(x_last) = 0", right[1][..., -1], torch.zeros_like(right[1][..., -1]), tol=tol)
    elif bc == "not-a-knot":
        cx.claim_eq("not-a-knot: S''' continuous at the second knot", left[3][..., 0], left[3][..., 1], tol=1e-4)
        cx.claim_eq("not-a-knot: S''' continuous at the last-but-one knot", left[3][..., -2], left[3][..., -1], tol=1e-4)
    elif bc == "periodic":
        cx.claim_eq("periodic: S'(x_first) = S'(x_last)", left[1][..., 0], right[1][..., -1], tol=tol)
        cx.claim_eq("periodic: S''(x_first) = S''(x_last)", left[2][..., 0], right[2][..., -1], tol=tol)
    return "ok"


def formulas(cx, n=3, bc="natural", method="cspline", grid=0):
    """few queries (<= number of knots) and many queries use two different internal formulas: identical results;
    y at construction = y at call; unsorted knots = sorted knots"""
    x = _knots(cx, n, grid)
    y = cx.sym("y", (n,))
    q = cx.sym("q", ())
    j = 1 if n > 2 else 0
    cx.assume((q > x[j]) & (q < x[j + 1]))
    kw = {"bc_type": bc} if method == "cspline" else {}
    with torch.no_grad():
        few = Interp1D(x, y, method=method, assume_sorted=True, **kw)(q.reshape(1))
        many_q = torch.cat([q.reshape(1)] + [x[i:i + 1] for i in range(n)])
        many = Interp1D(x, y, method=method, assume_sorted=True, **kw)(many_q)
        cx.claim_eq("few-query formula = many-query formula", many[:1], few)
        cx.claim_eq("many-query formula interpolates the knots", many[1:], y)
        late = Interp1D(x, method=method, assume_sorted=True, **kw)(q.reshape(1), y)
        cx.claim_eq("y at call = y at construction", late, few)
        perm = list(range(n))[::-1]
        xs = x[perm]
        ys = y[perm]
        uns = Interp1D(xs, ys, method=method, **kw)(q.reshape(1))
        cx.claim_eq("unsorted samples = sorted samples", uns, few)
        uns2 = Interp1D(xs, method=method, **kw)(q.reshape(1), ys)
        cx.claim_eq("unsorted samples with y at call", uns2, few)
        if method == "linear":
            chord = y[j] + (y[j + 1] - y[j]) * (q - x[j]) / (x[j + 1] - x[j])
            cx.claim_eq("linear = chord formula", few, chord.reshape(1))
    return "ok"


def extrapolation(cx, mode="nan", method="linear"):
    x = cx.const(torch.tensor([0.0, 0.5, 1.5, 2.0], dtype=torch.float64))
    y = cx.sym("y", (4,))
    kw = {} if method == "linear" else {"bc_type": "natural"}
    inside = cx.sym("qi", ())
    cx.assume((inside > 0.5) & (inside < 1.5))
    ref = Interp1D(x, y, method=method, assume_sorted=True, **kw)
    with torch.no_grad():
        if mode in ("nan", "zero", "const", "tensor_const", "callable", "bound"):
            lo = cx.sym("qlo", ())
            hi = cx.sym("qhi", ())
            cx.assume(lo < 0)
            cx.assume(hi > 2)
            xq = torch.stack([lo, inside, hi])
            ext = {"nan": "nan", "zero": 0.0, "const": -1.25, "tensor_const": cx.const(torch.tensor([0.0], dtype=torch.float64)),
                   "callable": (lambda t: t * t), "bound": "bound"}[mode]
            out = Interp1D(x, y, method=method, extrap=ext, assume_sorted=True, **kw)(xq)
            cx.claim_eq("inside value unaffected", out[1:2], ref(inside.reshape(1)))
            if mode == "nan":
                cx.claim_true("outside values are nan", bool(torch.isnan(out[0])) and bool(torch.isnan(out[2])))
            elif mode in ("zero", "tensor_const"):
                cx.claim_eq("outside values are the constant 0", out[[0, 2]], torch.zeros(2, dtype=torch.float64))
            elif mode == "const":
                cx.claim_eq("outside values are the constant", out[[0, 2]], torch.full((2,), -1.25, dtype=torch.float64))
            elif mode == "callable":
                cx.claim_eq("outside values from the callable", out[[0, 2]], torch.stack([lo * lo, hi * hi]))
            else:
                cx.claim_eq("outside values are the boundary samples", out[[0, 2]], torch.stack([y[0], y[3]]))
        else:
            # mirror / periodic: concrete outside positions (floor/modulo arithmetic), symbolic samples
            xq = cx.const(torch.tensor([-0.75, 2.5, 4.25, -2.5], dtype=torch.float64))
            if mode == "periodic":
                yp = torch.cat([y[:3], y[:1]])
                out = Interp1D(x, yp, method=method, extrap="periodic", assume_sorted=True, **kw)(xq)
                refp = Interp1D(x, yp, method=method, assume_sorted=True, **kw)
                inside_pos = cx.const(torch.tensor([1.25, 0.5, 0.25, 1.5], dtype=torch.float64))
                cx.claim_eq("periodic extension", out, refp(inside_pos))
            else:
                out = Interp1D(x, y, method=method, extrap="mirror", assume_sorted=True, **kw)(xq)
                inside_pos = cx.const(torch.tensor([0.75, 1.5, 0.25, 1.5], dtype=torch.float64))
                cx.claim_eq("mirror extension", out, ref(inside_pos))
    return "ok"


def extrap_grad(cx, mode="mirror", method="linear"):
    """queries outside the sample range, differentiated w.r.t. the query points and the samples: the result is the
    interpolant at the mapped position, so d/dxq = (derivative of the interpolant there) x (derivative of the position map:
    0 for bound, -1 in odd reflections / +1 in even ones for mirror, +1 for periodic)"""
    x = cx.const(torch.tensor([0.0, 0.5, 1.5, 2.0], dtype=torch.float64))
    yfree = cx.sym("y", (4,), requires_grad=True)
    kw = {} if method == "linear" else {"bc_type": "natural"}
    w = cx.sym("w", (4,))
    xq = cx.const(torch.tensor([-0.75, 2.5, 4.25, -2.5], dtype=torch.float64)).requires_grad_()
    if mode == "periodic":
        y = torch.cat([yfree[:3], yfree[:1]])
        pos, sign = [1.25, 0.5, 0.25, 1.5], [1.0, 1.0, 1.0, 1.0]
    elif mode == "mirror":
        y = yfree
        pos, sign = [0.75, 1.5, 0.25, 1.5], [-1.0, -1.0, 1.0, 1.0]
    else:   # bound
        y = yfree
        pos, sign = [0.0, 2.0, 2.0, 0.0], [0.0, 0.0, 0.0, 0.0]
    out = Interp1D(x, y, method=method, extrap=mode, assume_sorted=True, **kw)(xq)
    p = cx.const(torch.tensor(pos, dtype=torch.float64)).requires_grad_()
    ref = Interp1D(x, y, method=method, assume_sorted=True, **kw)(p)
    cx.claim_eq("value at the mapped position", out, ref)
    gq, gy = grads((w * out).sum(), [xq, yfree])
    rp, ry = grads((w * ref).sum(), [p, yfree])
    sg = cx.const(torch.tensor(sign, dtype=torch.float64))
    if mode == "bound":
        cx.claim_eq("d/dxq = 0 outside the range", gq, torch.zeros_like(xq))
    else:
        cx.claim_eq("d/dxq = interpolant's derivative x derivative of the position map", gq, rp * sg)
    cx.claim_eq("d/dy", gy, ry)
    return "ok"


def configs(tier):
    cfgs = []

    def add(id_, scenario, opts=None, **params):
        cfgs.append({"id": id_, "scenario": scenario, "params": params, "opts": opts or {}})

    for bc in ("natural", "clamped", "periodic"):
        for g in range(3):
            add("spline/n3/%s/init/grid%d" % (bc, g), spline, n=3, bc=bc, grid=g)
    add("spline/n3/natural/call/grid1", spline, n=3, bc="natural", y_at="call", grid=1)
    # the minimum number of knots with the default boundary condition (known finding: raises, see known_findings.json)
    add("spline/n3/not-a-knot/init/grid1", spline, n=3, bc="not-a-knot", grid=1)
    add("spline/n3/periodic/call/batch/grid0", spline, n=3, bc="periodic", y_at="call", batch=True, grid=0)
    for bc in ("natural", "not-a-knot", "periodic", "clamped"):
        for g in range(2):
            add("spline/n4/%s/init/grid%d" % (bc, g), spline, n=4, bc=bc, grid=g)
    add("formulas/n3/natural", formulas, n=3, bc="natural")
    add("formulas/n4/not-a-knot", formulas, n=4, bc="not-a-knot")
    add("formulas/n3/linear", formulas, n=3, method="linear")
    add("formulas/n2/linear", formulas, n=2, method="linear")
    for mode in ("nan", "zero", "const", "tensor_const", "callable", "bound", "mirror", "periodic"):
        add("extrap/%s/linear" % mode, extrapolation, mode=mode, method="linear")
    for mode in ("zero", "bound", "mirror"):
        add("extrap/%s/cspline" % mode, extrapolation, mode=mode, method="cspline")
    for mode in ("bound", "mirror", "periodic"):
        add("extrap_grad/%s/linear" % mode, extrap_grad, mode=mode, method="linear")
    add("extrap_grad/mirror/cspline", extrap_grad, mode="mirror", method="cspline")
    add("extrap_grad/bound/cspline", extrap_grad, mode="bound", method="cspline")
    if tier == "thorough":
        big = {"budget_s": 1700, "timeout_ms": 90000}
        for bc in ("natural", "not-a-knot", "periodic", "clamped"):
            add("spline/n5/%s/init/grid0" % bc, spline, n=5, bc=bc, grid=0, opts=big)
        add("spline/n4/not-a-knot/call/batch/grid1", spline, n=4, bc="not-a-knot", y_at="call", batch=True, grid=1, opts=big)
        for bc in ("natural", "clamped", "periodic"):
            add("spline/n3/%s/init/symbolic_knots" % bc, spline, n=3, bc=bc, grid=None, opts=big)
    return cfgs
