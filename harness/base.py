"""Scenario runner: every scenario is written once and executed
  (1) concretely on real torch tensors     (the replay / reference mode),
  (2) concretely through the shim          (translator validation, compared with (1)),
  (3) symbolically through the shim        (the deciding step: z3 proves each claim on each path).
A refuted claim is turned into concrete inputs and re-run in mode (1) before it is reported."""
import json
import math
import os
import sys
import time
import traceback
import warnings
from fractions import Fraction

import numpy as np
import torch
import z3

import symtorch
from symtorch import (S, SB, C, Explorer, PathAbort, Inconclusive, SymTensor, SymMode, T, D, fresh, _b, _r,
                      model_value)
from symtorch import core as _core

SEED = int(os.environ.get("VERIF_SEED", "0") or 0)
REPO = os.environ.get("VERIF_REPO") or "/repo"


class Skip(BaseException):
    """concrete inputs do not satisfy an assumption of the scenario"""


class ClaimFailed(Exception):
    pass


def _to_float_array(x):
    """observable -> numpy complex/float array"""
    if isinstance(x, SymTensor):
        d = x._d
        out = np.empty(d.shape, dtype=complex)
        for idx in np.ndindex(d.shape):
            e = d[idx]
            if isinstance(e, C):
                out[idx] = complex(float(e.re.n), float(e.im.n))
            elif isinstance(e, (bool, np.bool_)):
                out[idx] = float(e)
            elif isinstance(e, S):
                if e.isinf:
                    out[idx] = float("inf") * float(e.n)
                else:
                    out[idx] = float(e.n)
            elif hasattr(e, "_to_floats"):
                out[idx] = e._to_floats()[0]
            else:
                raise TypeError(type(e))
        return out
    if isinstance(x, torch.Tensor):
        return x.detach().resolve_conj().cpu().numpy().astype(complex)
    if isinstance(x, (S,)):
        return np.asarray(float(x.n), dtype=complex)
    if isinstance(x, (list, tuple)):
        return np.asarray([_to_float_array(e) for e in x], dtype=complex)
    return np.asarray(x, dtype=complex)


class Ctx:
    """what a scenario sees"""

    def __init__(self, mode, ex=None, values=None, rng=None, tol=1e-7):
        assert mode in ("sym", "real", "shim")
        self.mode = mode
        self.ex = ex
        self.values = values or {}
        self.rng = rng
        self.tol = tol
        self.inputs = {}       # name -> object array of z3 vars (sym) / float array (concrete)
        self.claims = []       # dicts
        self.observed = []     # (name, float array) in concrete modes
        self.notes = []
        self.outcome = None
        self.uf_tables = {}
        self._claim_names = set()
        self.partial = None    # (rng, keep_free probability) -> most input entries concrete, a few symbolic
        self.n_symbolic_entries = 0

    # -- inputs
    @property
    def symbolic(self):
        return self.mode == "sym"

    def _concrete_vals(self, name, shape, complex_, lo, hi, positive):
        if name in self.values:
            raw = np.asarray(self.values[name])
            n = int(np.prod(shape)) if shape else 1
            if complex_ and not np.iscomplexobj(raw) and raw.size == 2 * n:
                raw = raw.astype(float).reshape(shape + (2,))
                return raw[..., 0] + 1j * raw[..., 1]
            return raw.astype(complex if complex_ else float).reshape(shape)
        # seeded small rationals k/8
        def draw():
            k = self.rng.randint(int(lo * 8), int(hi * 8) + 1)
            if positive and k <= 0:
                k = 1 - k
            return k / 8.0
        out = np.empty(shape, dtype=complex if complex_ else float)
        for idx in np.ndindex(*shape):
            out[idx] = complex(draw(), draw()) if complex_ else draw()
        return out

    def sym(self, name, shape=(), complex_=False, requires_grad=False, lo=-2, hi=2, positive=False):
        shape = tuple(shape)
        if self.mode == "sym":
            arr = fresh(name, shape, complex_=complex_)
            if self.partial is not None:
                # partial concretisation: keep only the entries selected by the plan symbolic
                plan = self.partial
                v = self._concrete_vals(name, shape, complex_, lo, hi, positive)
                for k, idx in enumerate(np.ndindex(*shape)):
                    if (name, k) in plan["free"]:
                        self.n_symbolic_entries += 1
                        continue
                    arr[idx] = C(S(float(v[idx].real)), S(float(v[idx].imag))) if complex_ else S(float(v[idx]))
                plan["seen"].append((name, int(np.prod(shape)) if shape else 1))
            self.inputs[name] = arr
            if positive:
                for e in arr.reshape(-1):
                    if isinstance(e, S) and e.sym:
                        self.ex.assume(e > 0)
            t = T(arr, dtype=symtorch.ops.CPLX if complex_ else symtorch.ops.FLOAT)
        else:
            v = self._concrete_vals(name, shape, complex_, lo, hi, positive)
            self.inputs[name] = v
            if self.mode == "real":
                t = torch.tensor(v, dtype=torch.complex128 if complex_ else torch.float64)
            else:
                arr = np.empty(shape, dtype=object)
                for idx in np.ndindex(*shape):
                    arr[idx] = C(S(float(v[idx].real)), S(float(v[idx].imag))) if complex_ else S(float(v[idx]))
                t = T(arr, dtype=symtorch.ops.CPLX if complex_ else symtorch.ops.FLOAT)
        if requires_grad:
            t = t.requires_grad_()
        return t

    def scalar(self, name, lo=-2, hi=2, positive=False):
        """a python-level symbolic scalar (S) / float"""
        t = self.sym(name, (), lo=lo, hi=hi, positive=positive)
        if self.mode == "real":
            return float(t)
        return t._d[()]

    def const(self, value, dtype=torch.float64):
        """a concrete tensor of the right kind for the mode"""
        t = torch.as_tensor(value, dtype=dtype)
        if self.mode == "real" or isinstance(t, SymTensor):
            return t
        return T(symtorch.from_real(t), dtype=t.dtype)

    def from_array(self, arr, dtype=None):
        """tensor from an object array of scalars built by the scenario out of cx.scalar()/sym() pieces"""
        arr = np.asarray(arr, dtype=object)
        if self.mode == "real":
            flat = [complex(x) if isinstance(x, complex) else float(x) for x in arr.reshape(-1)]
            cplx = any(isinstance(x, complex) for x in flat)
            return torch.tensor(flat, dtype=torch.complex128 if cplx else torch.float64).reshape(arr.shape)
        return T(symtorch.ops._ew1(symtorch.lift_elem)(arr) if arr.size else arr, dtype=dtype)

    def choose(self, n, name="choice"):
        """an integer in range(n): a symbolic selector made concrete by forking (every value is explored) in the symbolic
        mode; taken from the counterexample / the seeded generator in the concrete modes"""
        if not hasattr(self, "choices"):
            self.choices = []
        if self.mode == "sym":
            k = self.ex.choose(n, name)
        else:
            pre = self.values.get("__choices__")
            if pre is not None and len(self.choices) < len(pre):
                k = int(pre[len(self.choices)]) % n
            else:
                k = self.rng.randrange(n)
        self.choices.append(k)
        return k

    # -- assumptions
    def assume(self, cond, note=None):
        if isinstance(cond, torch.Tensor):
            if isinstance(cond, SymTensor):
                cond = symtorch.ops._all(cond)._d[()]
            else:
                cond = bool(cond.all())
        if self.mode == "sym":
            self.ex.assume(cond, note=note)
        else:
            if isinstance(cond, SB):
                cond = bool(z3.is_true(z3.simplify(cond.e)))
            if not cond:
                raise Skip(note or "assumption not met")

    def plant(self, kind, inp, out):
        """declare a planted factorisation (input built from the factor)"""
        if self.mode == "real":
            return
        outp = tuple(D(o) for o in out) if isinstance(out, (tuple, list)) else D(out)
        self.ex.plant(kind, D(inp), outp)

    # -- claims
    def _record(self, name, status, secs=0.0, detail=None, model=None):
        if name in self._claim_names:
            k = 2
            while "%s#%d" % (name, k) in self._claim_names:
                k += 1
            name = "%s#%d" % (name, k)
        self._claim_names.add(name)
        self.claims.append({"name": name, "status": status, "secs": round(secs, 4), "detail": detail,
                            "model": model})
        return status

    def claim_eq(self, name, a, b, tol=None, observe=True):
        """elementwise a == b   (observe=False: the operands are gauge-dependent, e.g. eigenvector signs, and are not
        compared between real torch and the shim during translator validation; the claim itself still is)"""
        if a is None and b is None:
            return self._record(name, "proved" if self.mode == "sym" else "ok")
        if (a is None) != (b is None):
            # None gradient == zero gradient
            other = b if a is None else a
            zero = torch.zeros_like(other)
            a, b = (zero, other) if a is None else (other, zero)
        if self.mode == "sym":
            da, db = D(a), D(b)
            if not isinstance(da, np.ndarray):
                da = np.asarray(symtorch.lift_elem(da), dtype=object)
            if not isinstance(db, np.ndarray):
                db = np.asarray(symtorch.lift_elem(db), dtype=object)
            if da.shape != db.shape:
                return self._record(name, "refuted", detail="shape %s vs %s" % (da.shape, db.shape),
                                    model=self._model_inputs(None))
            cs = []
            for x, y in zip(da.reshape(-1), db.reshape(-1)):
                e = (x == y)
                if hasattr(e, "_claim_terms"):
                    cs.extend(e._claim_terms())
                elif isinstance(e, (bool, np.bool_)):
                    if not e:
                        cs.append(z3.BoolVal(False))
                else:
                    cs.append(_b(e))
            t = time.time()
            # element by element: each is one polynomial identity (far easier for nlsat than their conjunction)
            status, model = "proved", None
            for c in cs:
                st, m = self.ex.prove(c)
                if st == "refuted":
                    status, model = "refuted", m
                    break
                if st == "unknown":
                    status = "unknown"
                    if m is not None and model is None:
                        model = m
            return self._record(name, status, time.time() - t,
                                model=self._model_inputs(model) if model is not None else None)
        fa, fb = _to_float_array(a), _to_float_array(b)
        if observe:
            self.observed.append((name, fa))
        if fa.shape != fb.shape:
            return self._record(name, "failed", detail="shape %s vs %s" % (fa.shape, fb.shape))
        tol = tol or self.tol
        scale = max(1.0, float(np.max(np.abs(fb))) if fb.size else 1.0, float(np.max(np.abs(fa))) if fa.size else 1.0)
        if getattr(self, "relative", False) and fa.size:
            scale = max(float(np.max(np.abs(fb))), float(np.max(np.abs(fa))), 1e-300)
            tol = max(tol, 1e-6)
            # ... but never below the rounding noise of a float64 computation on inputs of the given magnitude: operands of
            # size 1e-16 next to O(1) inputs are rounding residue, not a counterexample made of tiny numbers
            try:
                iscale = max([1.0] + [float(np.max(np.abs(np.asarray(v, dtype=complex)))) for k, v in self.inputs.items()
                                      if not str(k).startswith("__") and np.asarray(v).size])
            except Exception:
                iscale = 1.0
            if scale < 1e-11 * iscale:
                return self._record(name, "ok")
        err = float(np.max(np.abs(fa - fb))) if fa.size else 0.0
        if not (err <= tol * scale):
            return self._record(name, "failed", detail="max abs diff %.3e (scale %.3e)" % (err, scale))
        return self._record(name, "ok")

    def claim(self, name, cond):
        """a boolean claim (SB / bool / bool tensor)"""
        if isinstance(cond, torch.Tensor):
            if isinstance(cond, SymTensor):
                cond = symtorch.ops._all(cond)._d[()]
            else:
                cond = bool(cond.all())
        if self.mode == "sym":
            t = time.time()
            st, m = self.ex.prove(cond)
            return self._record(name, st, time.time() - t, model=self._model_inputs(m) if m is not None else None)
        if isinstance(cond, SB):
            s = z3.simplify(cond.e)
            cond = z3.is_true(s)
        self.observed.append((name, np.asarray(float(bool(cond)), dtype=complex)))
        return self._record(name, "ok" if cond else "failed")

    def claim_true(self, name, flag, detail=None):
        """a claim that is decided concretely in every mode (object identity, shapes, exception type, ...)"""
        flag = bool(flag)
        if self.mode == "sym":
            return self._record(name, "proved" if flag else "refuted", detail=detail,
                                model=self._model_inputs(None) if not flag else None)
        return self._record(name, "ok" if flag else "failed", detail=detail)

    def reach(self, name, cond):
        """reachability witness: pc & cond must be satisfiable (guards against vacuous passes)"""
        if self.mode != "sym":
            return
        r = self.ex.feasible(_b(cond) if not isinstance(cond, (bool, np.bool_)) else z3.BoolVal(bool(cond)))
        self.claims.append({"name": "reach:" + name, "status": "reached" if r == "sat" else
                            ("unreached" if r == "unsat" else "unknown"), "secs": 0.0, "detail": None, "model": None})

    def _model_inputs(self, m):
        """concrete input values from a model (or from a model of the path condition alone)"""
        if m is None:
            r, m = self.ex._check([], want_model=True, kind="path-model")
            if m is None:
                return None
        vals = {}
        for name, arr in self.inputs.items():
            out = np.empty(arr.shape, dtype=object)
            for idx in np.ndindex(arr.shape):
                e = arr[idx]
                if isinstance(e, C):
                    out[idx] = [model_value(m, e.re), model_value(m, e.im)]
                else:
                    out[idx] = model_value(m, e)
            vals[name] = out.tolist()
        if getattr(self, "choices", None):
            vals["__choices__"] = list(self.choices)
        if self.uf_tables:
            vals["__uf__"] = {}
            for fname, rec in self.uf_tables.items():
                tab = []
                for args, val, dval in rec:
                    row = {"x": [model_value(m, a) for a in args], "f": model_value(m, val)}
                    if dval is not None:
                        row["df"] = [model_value(m, d) for d in dval]
                    tab.append(row)
                vals["__uf__"][fname] = tab
        return vals

    def note(self, s):
        self.notes.append(s)


# ------------------------------------------------------------------------------------------ running one config
def run_concrete(scenario, params, mode, values=None, seed=0, relative=False):
    """returns (ctx, exception or None).  relative=True (replay of a solver counterexample only): equalities are compared
    relative to the magnitude of the operands without the floor of 1, so that a counterexample made of tiny numbers (which the
    solver found in exact arithmetic) is not lost below an absolute tolerance"""
    import random
    rng = random.Random(seed * 7919 + 13)
    vals = dict(values or {})
    cx = Ctx(mode, values=vals, rng=rng)
    cx.relative = relative
    exc = None
    try:
        if mode == "shim":
            ex = Explorer()
            ex.concrete = True
            cx.ex = ex
            Explorer.cur = ex
            _core.CONCRETE_SQRT[0] = True
            try:
                with SymMode():
                    cx.outcome = scenario(cx, **params)
            finally:
                Explorer.cur = None
                _core.CONCRETE_SQRT[0] = False
        else:
            cx.outcome = scenario(cx, **params)
    except Skip as e:
        cx.outcome = ("skip", str(e))
    except (PathAbort, Inconclusive) as e:
        cx.outcome = ("inconclusive", str(e))
        exc = e
    except Exception as e:
        cx.outcome = ("exception", "%s: %s" % (type(e).__name__, str(e)[:200]))
        cx.tb = traceback.format_exc()
        exc = e
    return cx, exc


def _vals_of(cx):
    v = jsonable_vals(cx.inputs)
    if getattr(cx, "choices", None):
        v["__choices__"] = list(cx.choices)
    return v


def jsonable_vals(inputs):
    out = {}
    for n, v in inputs.items():
        if n in ("__uf__", "__choices__"):
            out[n] = v
            continue
        a = np.asarray(v)
        if np.iscomplexobj(a):
            out[n] = np.stack([a.real, a.imag], axis=-1).tolist()
        else:
            out[n] = a.astype(float).tolist()
    return out


class FunctionTrace:
    """records which functions of /repo/xitorch are executed (evidence: 'functions encoded')"""

    def __init__(self):
        self.seen = set()

    def __enter__(self):
        def prof(frame, event, arg):
            if event == "call":
                fn = frame.f_code.co_filename
                if fn.startswith(REPO + "/xitorch") and "_tests" not in fn:
                    self.seen.add("%s:%s" % (fn[len(REPO) + 1:], frame.f_code.co_qualname
                                                if hasattr(frame.f_code, "co_qualname") else frame.f_code.co_name))
        sys.setprofile(prof)
        return self

    def __exit__(self, *a):
        sys.setprofile(None)


def _dump_partial(res):
    """what has been established so far (violations found on seeded concrete inputs, paths decided): read by the driver if this
    worker is killed at its wall-time limit, so that a found violation is not lost"""
    out = os.environ.get("VERIF_PARTIAL_OUT")
    if not out:
        return
    try:
        with open(out + ".tmp", "w") as f:
            json.dump(res, f, default=str)
        os.replace(out + ".tmp", out)
    except Exception:
        pass


def run_config(prop, cfg_id, scenario, params, opts):
    """full treatment of one configuration; returns a JSON-able dict"""
    t0 = time.time()
    res = {"config": cfg_id, "params": {k: (v if isinstance(v, (int, float, str, bool, type(None), list, tuple))
                                            else repr(v)) for k, v in params.items()},
           "paths": [], "violations": [], "harness_errors": [], "inconclusive": [], "functions": []}
    expect_fail = opts.get("expect_concrete_fail", False)

    # (1)+(2) translator validation on seeded concrete inputs: real torch vs shim
    nval = opts.get("validate", 2)
    res["shim_validation"] = {"runs": 0, "agree": 0, "skipped": 0}
    real_only = opts.get("real_only", False)
    for k in range(nval):
        seed = SEED * 101 + k
        cr, er = run_concrete(scenario, params, "real", seed=seed)
        if real_only:
            # auxiliary concrete run of the oracle on the real code only (used where the symbolic engine cannot follow
            # the code, e.g. numerically regularised singular solves); counted separately, never as a solver result
            res.setdefault("real_only_runs", 0)
            res["real_only_runs"] += 1
            if cr.claims:
                res["real_only_with_claims"] = res.get("real_only_with_claims", 0) + 1
            for c in cr.claims:
                if c["status"] == "failed":
                    res["violations"].append({"claim": c["name"], "detail": c["detail"], "source": "concrete-seeded",
                                              "values": _vals_of(cr), "confirmed": True})
            if er is not None and not isinstance(er, (PathAbort, Inconclusive, Skip)):
                res["violations"].append({"claim": "no-unexpected-exception", "detail": cr.outcome[1],
                                          "source": "concrete-seeded", "values": _vals_of(cr),
                                          "confirmed": True, "tb": getattr(cr, "tb", None)})
            continue
        if cr.outcome and isinstance(cr.outcome, tuple) and cr.outcome[0] == "skip":
            res["shim_validation"]["skipped"] += 1
            continue
        # the claims themselves on real torch (an ordinary test; a failure here is replayed below like a model)
        for c in cr.claims:
            if c["status"] == "failed":
                res["violations"].append({"claim": c["name"], "detail": c["detail"], "source": "concrete-seeded",
                                          "values": _vals_of(cr),
                                          "confirmed": True})
        if er is not None and not isinstance(er, (PathAbort, Inconclusive)):
            res["violations"].append({"claim": "no-unexpected-exception", "detail": cr.outcome[1],
                                      "source": "concrete-seeded",
                                      "values": _vals_of(cr),
                                      "confirmed": True, "tb": getattr(cr, "tb", None)})
        shim_vals = {n: v for n, v in cr.inputs.items()}
        if getattr(cr, "choices", None):
            shim_vals["__choices__"] = list(cr.choices)
        cs, es = run_concrete(scenario, params, "shim", values=shim_vals, seed=seed)
        res["shim_validation"]["runs"] += 1
        if isinstance(cs.outcome, tuple) and cs.outcome and cs.outcome[0] == "inconclusive":
            res["harness_errors"].append("shim validation inconclusive: %s" % (cs.outcome[1],))
            continue
        ok = True
        why = None
        if er is None and es is None and isinstance(cr.outcome, str) and isinstance(cs.outcome, str) \
                and cr.outcome != cs.outcome:
            # exact arithmetic and float64 took different branches at a threshold (e.g. an exact zero):
            # not a translator problem, but not an agreement either
            res["shim_validation"]["diverged"] = res["shim_validation"].get("diverged", 0) + 1
            continue
        if (er is None) != (es is None):
            ok = False
            why = "real: %r / shim: %r" % (cr.outcome, cs.outcome)
            if es is not None and hasattr(cs, "tb"):
                why += "\n" + cs.tb
            if er is not None and hasattr(cr, "tb"):
                why += "\n" + cr.tb
        elif len(cr.observed) != len(cs.observed):
            ok = False
            why = "different number of observations: %d vs %d" % (len(cr.observed), len(cs.observed))
        else:
            for (n1, a), (n2, b) in zip(cr.observed, cs.observed):
                if n1 != n2 or a.shape != b.shape:
                    ok = False
                    why = "observation %s/%s shapes %s/%s" % (n1, n2, a.shape, b.shape)
                    break
                sc = max(1.0, float(np.max(np.abs(a))) if a.size else 1.0)
                fin = np.isfinite(a) & np.isfinite(b)
                if (np.isfinite(a) != np.isfinite(b)).any() or (a.size and float(np.max(np.abs(a[fin] - b[fin]), initial=0.0)) > 1e-8 * sc):
                    ok = False
                    why = "observation %s differs: real %s shim %s" % (n1, a.reshape(-1)[:4], b.reshape(-1)[:4])
                    break
        if ok:
            res["shim_validation"]["agree"] += 1
        else:
            res["harness_errors"].append("shim/torch disagreement (seed %d): %s" % (seed, why))
    if real_only and not res.get("real_only_with_claims") and not res["violations"]:
        # vacuity guard: every seeded input was outside the scenario's assumptions
        res["harness_errors"].append("auxiliary concrete configuration evaluated no claim on any of its %d seeded inputs" % nval)
    if opts.get("concrete_only") or real_only:
        res["wall_s"] = round(time.time() - t0, 2)
        return res
    _dump_partial(res)

    # (3) symbolic exploration
    ex = Explorer(timeout_ms=opts.get("timeout_ms", 10000), logic=opts.get("logic"),
                  max_paths=opts.get("max_paths", 300), max_decisions=opts.get("max_decisions", 300))
    trace = FunctionTrace()
    first = [True]
    pathrecs = []

    def one_path(ex_):
        cx = Ctx("sym", ex=ex_)
        one_path.cx = cx
        try:
            return _one_path_body(cx)
        finally:
            one_path.shapes = {n: (tuple(a.shape), bool(a.size and isinstance(a.reshape(-1)[0], C)))
                               for n, a in cx.inputs.items()}

    def _one_path_body(cx):
        with SymMode():
            if first[0]:
                first[0] = False
                with trace:
                    cx.outcome = scenario(cx, **params)
            else:
                cx.outcome = scenario(cx, **params)
        return cx

    deadline = t0 + opts.get("budget_s", 600)
    gen = ex.run(_wrap_exceptions(one_path))
    for prefix, out in gen:
        cx = getattr(one_path, "cx", None)
        rec = {"prefix": "".join("T" if b else "F" for b in prefix), "claims": [], "outcome": None}
        if isinstance(out, tuple) and out and out[0] == "inconclusive":
            rec["outcome"] = "inconclusive: %s" % (out[1],)
            res["inconclusive"].append({"path": rec["prefix"], "why": out[1]})
            pathrecs.append(rec)
            continue
        if isinstance(out, tuple) and out and out[0] == "exception":
            # unexpected exception raised by the code under test on this path: candidate violation
            e, tb = out[1], out[2]
            rec["outcome"] = "exception %s" % type(e).__name__
            vals = cx._model_inputs(None) if cx is not None else None
            cand = {"claim": "no-unexpected-exception", "detail": "%s: %s" % (type(e).__name__, str(e)[:300]),
                    "path": rec["prefix"], "values": vals, "tb": tb, "source": "symbolic"}
            _replay_candidate(scenario, params, cand, res)
            pathrecs.append(rec)
            continue
        cx = out
        rec["outcome"] = cx.outcome if isinstance(cx.outcome, (str, type(None))) else repr(cx.outcome)
        # path reachability (vacuity guard)
        r = ex.feasible(z3.BoolVal(True))
        rec["feasible"] = r
        for c in cx.claims:
            rec["claims"].append({"name": c["name"], "status": c["status"], "secs": c["secs"], "detail": c["detail"]})
            if c["status"] == "refuted":
                cand = {"claim": c["name"], "detail": c["detail"], "path": rec["prefix"], "values": c["model"],
                        "source": "symbolic"}
                _replay_candidate(scenario, params, cand, res)
            elif c["status"] == "unknown":
                confirmed = False
                if c.get("model") is not None:
                    # candidate from the linear abstraction: only counts if the real code violates the claim on it
                    cand = {"claim": c["name"], "detail": c["detail"], "path": rec["prefix"], "values": c["model"],
                            "source": "abstraction-candidate"}
                    confirmed = _replay_candidate(scenario, params, cand, res, tentative=True)
                if not confirmed:
                    res["inconclusive"].append({"path": rec["prefix"], "why": "solver unknown on claim %s" % c["name"]})
        if cx.ex.concretized:
            bad = [loc for loc in cx.ex.concretized if not _format_site(loc)]
            if bad:
                res["inconclusive"].append({"path": rec["prefix"], "why": "float() of a symbolic value at %s" % bad[:3]})
        rec["notes"] = cx.notes
        if _core.TRACE:
            rec["trace"] = list(ex.trace)
        rec["assumptions"] = sorted(set(k for _, k in ex.pc))
        rec["sqrt_hits"] = ex.sqrt_hits
        rec["plant_hits"] = ex.plant_hits
        pathrecs.append(rec)
        if time.time() > deadline:
            res["inconclusive"].append({"path": "*", "why": "time budget exhausted after %d paths" % len(pathrecs)})
            ex.truncated = True
            break
    # witness hunt: when some claim stayed undecided, re-run the real code with most input entries fixed to seeded
    # rationals and two or three entries symbolic; on such low-dimensional instances the solver decides every path, and
    # a refuted claim is replayed on the real code like any other counterexample
    shapes = getattr(one_path, "shapes", None)
    undecided = any("solver unknown" in i.get("why", "") for i in res["inconclusive"])
    if shapes and (undecided or opts.get("hunt_always")) and not res["violations"]:
        _hunt(scenario, params, opts, res, shapes, deadline + opts.get("hunt_budget_s", 90))
    if ex.truncated and not any(i["path"] == "*" for i in res["inconclusive"]):
        res["inconclusive"].append({"path": "*", "why": "path bound %d reached" % ex.max_paths})
    res["paths"] = pathrecs
    res["n_paths"] = len(pathrecs)
    res["aborted_paths"] = ex.aborted
    res["queries"] = ex.nqueries
    res["solver_s"] = round(ex.solver_time, 3)
    res["unknown_feasibility"] = ex.unknown_feas
    qs = {}
    for kind, r, dt in ex.query_log:
        key = "%s:%s" % (kind.split("/")[0], r)
        qs[key] = qs.get(key, 0) + 1
    res["query_kinds"] = qs
    res["functions"] = sorted(trace.seen)
    res["aten_ops"] = sorted(symtorch.USED_OPS)
    res["wall_s"] = round(time.time() - t0, 2)
    return res


_GUARD_CACHE = {}


def _jacobian_solve_ignores_tol():
    """AST guard (re-read from /repo on every run): no Jacobian model's solve() reads its `tol` argument, so the
    value of `eta` in _nonlin_solver (the only consumer of the float() at 'eta_A = float(...)') cannot influence
    any result"""
    if "jac" not in _GUARD_CACHE:
        import ast
        ok = True
        try:
            src = open(REPO + "/xitorch/_impls/optimize/root/_jacobian.py").read()
            for node in ast.walk(ast.parse(src)):
                if isinstance(node, ast.FunctionDef) and node.name == "solve":
                    for sub in ast.walk(node):
                        if isinstance(sub, ast.Name) and sub.id == "tol" and isinstance(sub.ctx, ast.Load):
                            ok = False
        except Exception:
            ok = False
        _GUARD_CACHE["jac"] = ok
    return _GUARD_CACHE["jac"]


def _hunt(scenario, params, opts, res, shapes, deadline):
    import random
    entries = [(n, k) for n, (shp, _c) in sorted(shapes.items()) for k in range(int(np.prod(shp)) if shp else 1)]
    if len(entries) < 3:
        return
    rounds = opts.get("hunt_rounds", 8)
    hunted = {"rounds": 0, "paths": 0, "queries": 0, "refuted": 0}
    for rnd in range(rounds):
        if time.time() > deadline or res["violations"]:
            break
        rs = random.Random(SEED * 1009 + rnd * 17 + 5)
        free = set(rs.sample(entries, 2 if rnd % 2 == 0 else 3))
        ex = Explorer(timeout_ms=4000, logic=opts.get("logic"), max_paths=40, max_decisions=opts.get("max_decisions", 300))

        def one(ex_):
            cx = Ctx("sym", ex=ex_, rng=random.Random(SEED * 7 + rnd))
            cx.partial = {"free": free, "seen": []}
            one.cx = cx
            with SymMode():
                cx.outcome = scenario(cx, **params)
            return cx
        hunted["rounds"] += 1
        for prefix, out in ex.run(_wrap_exceptions(one)):
            hunted["paths"] += 1
            if time.time() > deadline:
                break
            if not isinstance(out, Ctx):
                continue
            for c in out.claims:
                if c["status"] == "refuted" and c.get("model") is not None:
                    hunted["refuted"] += 1
                    cand = {"claim": c["name"], "detail": c["detail"], "path": "hunt%d:%s" % (
                        rnd, "".join("T" if b else "F" for b in prefix)), "values": c["model"], "source": "hunt"}
                    if _replay_candidate(scenario, params, cand, res, tentative=True):
                        break
            if res["violations"]:
                break
        hunted["queries"] += ex.nqueries
        res["queries"] = res.get("queries", 0)
    res["hunt"] = hunted


def _format_site(loc):
    """is file:line a string-formatting / printing site (where NaN text is harmless), or an allow-listed site
    whose value provably does not matter?"""
    try:
        fn, ln = loc.rsplit(":", 1)
        import linecache
        if fn.endswith("root/rootsolver.py") and "eta_A = float(" in linecache.getline(fn, int(ln)):
            return _jacobian_solve_ignores_tol()
        for k in range(int(ln), max(int(ln) - 4, 0), -1):
            line = linecache.getline(fn, k)
            if "%" in line or "print(" in line or "format(" in line or "msg" in line:
                return True
        return False
    except Exception:
        return False


def _wrap_exceptions(fn):
    def g(ex):
        try:
            return fn(ex)
        except Skip:
            raise PathAbort("skip")
        except Exception as e:
            return ("exception", e, traceback.format_exc())
    return g


def _replay_candidate(scenario, params, cand, res, tentative=False):
    """run the candidate counterexample on the real code (float64, real LAPACK, no shim); returns True when the
    violation is confirmed.  tentative: the candidate is only a hint (no error if it does not reproduce)"""
    if tentative:
        sub = {"violations": [], "harness_errors": [], "inconclusive": []}
        _replay_candidate(scenario, params, cand, sub, tentative=False)
        if sub["violations"]:
            res["violations"].extend(sub["violations"])
            return True
        return False
    vals = cand.get("values")
    if vals is None:
        cand["confirmed"] = False
        cand["replay"] = "no model"
        res["inconclusive"].append({"path": cand.get("path"), "why": "refuted claim %s without a model (%s)" % (
            cand["claim"], (cand.get("detail") or "")[:160])})
        return
    cr, er = run_concrete(scenario, params, "real", values=vals, seed=0)
    name = cand["claim"]
    base = name.split("#")[0]
    if name == "no-unexpected-exception":
        if er is not None and not isinstance(er, (PathAbort, Inconclusive)):
            cand["confirmed"] = True
            cand["replay"] = "real code raised %s" % (cr.outcome[1],)
            res["violations"].append(cand)
        else:
            cand["confirmed"] = False
            cand["replay"] = "real code did not raise (outcome %r)" % (cr.outcome,)
            res["harness_errors"].append("non-reproducing exception candidate: %s\n%s" % (cand["detail"], cand.get("tb") or ""))
        return
    st = [c for c in cr.claims if c["name"] == name]
    if isinstance(cr.outcome, tuple) and cr.outcome and cr.outcome[0] == "skip":
        cand["confirmed"] = False
        cand["replay"] = "replay inputs outside the assumptions after float conversion"
        res["inconclusive"].append({"path": cand.get("path"), "why": "candidate for %s not replayable: %s" % (name, cr.outcome[1])})
        return
    if st and st[0]["status"] == "failed":
        cand["confirmed"] = True
        cand["replay"] = "real code violates the claim: %s" % (st[0]["detail"],)
        res["violations"].append(cand)
        return
    if st and er is None and not tentative:
        # second look with a purely relative comparison (the counterexample may consist of tiny numbers)
        crr, err_ = run_concrete(scenario, params, "real", values=vals, seed=0, relative=True)
        str_ = [c for c in crr.claims if c["name"] == name]
        if err_ is None and str_ and str_[0]["status"] == "failed":
            cand["confirmed"] = True
            cand["replay"] = "real code violates the claim (relative comparison): %s" % (str_[0]["detail"],)
            res["violations"].append(cand)
            return
    if er is not None and not isinstance(er, (PathAbort, Inconclusive)):
        cand["confirmed"] = True
        cand["replay"] = "real code raised %s" % (cr.outcome[1],)
        res["violations"].append(cand)
        return
    # the model did not reproduce (different path taken in floating point, or a shim problem):
    # look for a reproducing witness among seeded concretisations before giving up
    for k in range(8):
        cr2, er2 = run_concrete(scenario, params, "real", seed=1000 + k + SEED)
        st2 = [c for c in cr2.claims if c["name"] == name and c["status"] == "failed"]
        if st2:
            cand["confirmed"] = True
            cand["values"] = _vals_of(cr2)
            cand["replay"] = "real code violates the claim on seeded inputs: %s" % (st2[0]["detail"],)
            res["violations"].append(cand)
            return
    cand["confirmed"] = False
    cand["replay"] = "not reproduced on the real code (outcome %r, claim statuses %r)" % (
        cr.outcome, [(c["name"], c["status"]) for c in cr.claims][:6])
    res["harness_errors"].append("non-reproducing counterexample for claim %s on path %s: %s" % (
        name, cand.get("path"), cand["replay"]))


# ------------------------------------------------------------------------------------------ helpers for scenarios
class Recorder:
    """records warnings of a category around a call"""

    def __init__(self, category):
        self.category = category
        self.warned = False
        self.messages = []

    def __enter__(self):
        self._cm = warnings.catch_warnings(record=True)
        self._w = self._cm.__enter__()
        warnings.simplefilter("always")
        return self

    def __exit__(self, *a):
        for w in self._w:
            if issubclass(w.category, self.category):
                self.warned = True
                self.messages.append(str(w.message)[:100])
        self._cm.__exit__(*a)


def grads(outputs, inputs, grad_outputs=None, create_graph=False, allow_unused=True):
    g = torch.autograd.grad(outputs, inputs, grad_outputs=grad_outputs, create_graph=create_graph,
                            allow_unused=allow_unused, retain_graph=True)
    return g


def zero_if_none(gs, xs):
    return [torch.zeros_like(x) if g is None else g for g, x in zip(gs, xs)]
