"""Driver: ./check <ID> [--tier quick|thorough] [--replay file] [--only substr] [--jobs N]"""
import argparse
import fnmatch
import importlib
import json
import os
import subprocess
import sys
import tempfile
import time
from concurrent.futures import ThreadPoolExecutor

if hasattr(sys, "set_int_max_str_digits"):
    sys.set_int_max_str_digits(0)      # exact rationals can have thousands of digits
HERE = os.path.dirname(os.path.abspath(__file__))
ROOT = os.path.dirname(HERE)
EXIT_OK, EXIT_VIOLATION, EXIT_HARNESS = 0, 1, 2


def load(pid):
    return importlib.import_module("harness.%s" % pid.lower())


def known_findings(pid):
    p = os.path.join(ROOT, "known_findings.json")
    if not os.path.exists(p):
        return []
    with open(p) as f:
        data = json.load(f)
    return [e for e in data.get("findings", []) if e.get("property") == pid]


def match_known(pid, cfg_id, claim):
    base = claim.split("#")[0]
    for e in known_findings(pid):
        if e.get("status") != "known":
            continue   # 'fixed' entries suppress nothing
        if fnmatch.fnmatch(cfg_id, e.get("config", "*")) and fnmatch.fnmatch(base, e.get("claim", "*")):
            return e
    return None


def worker(pid, cfg_id, tier, out_path):
    os.environ.setdefault("OMP_NUM_THREADS", "1")
    import torch
    torch.set_num_threads(1)
    from harness import base
    mod = load(pid)
    cfgs = {c["id"]: c for c in mod.configs(tier)}
    c = cfgs[cfg_id]
    scenario = c["scenario"]
    opts = dict(getattr(mod, "DEFAULT_OPTS", {}))
    opts.update(c.get("opts", {}))
    try:
        res = base.run_config(pid, cfg_id, scenario, c.get("params", {}), opts)
    except BaseException as e:  # noqa
        import traceback
        res = {"config": cfg_id, "paths": [], "violations": [], "inconclusive": [],
               "harness_errors": ["worker crashed: %s\n%s" % (repr(e), traceback.format_exc())]}
    with open(out_path, "w") as f:
        json.dump(res, f, default=str)


def run_worker_subprocess(pid, cfg, tier, tmpdir, timeout_s):
    out = os.path.join(tmpdir, "%s.json" % cfg["id"].replace("/", "_"))
    cmd = [sys.executable, "-m", "harness.run", pid, "--tier", tier, "--worker", cfg["id"], "--out", out]
    env = dict(os.environ)
    env["PYTHONPATH"] = ROOT + os.pathsep + env.get("PYTHONPATH", "")
    env["OMP_NUM_THREADS"] = "1"
    env["PYTHONWARNINGS"] = "ignore::DeprecationWarning"
    env["VERIF_PARTIAL_OUT"] = out + ".partial"
    t0 = time.time()
    try:
        for attempt in range(3):
            p = subprocess.run(cmd, cwd=ROOT, env=env, capture_output=True, text=True,
                               timeout=max(30, timeout_s - (time.time() - t0)))
            if os.path.exists(out) or p.returncode >= 0:
                break
            # the worker was killed by a signal (a crash inside the native solver library): run it again
        if os.path.exists(out):
            with open(out) as f:
                res = json.load(f)
        elif p.returncode < 0:
            # persistent crash of the solver process: nothing was decided for this configuration (not a finding)
            res = {"config": cfg["id"], "paths": [], "violations": [], "harness_errors": [], "inconclusive": []}
            if os.path.exists(out + ".partial"):
                try:
                    with open(out + ".partial") as f:
                        res = json.load(f)
                except Exception:
                    pass
            res.setdefault("inconclusive", []).append({"path": "*", "why": "worker killed by signal %d three times (solver crash)" % -p.returncode})
        else:
            res = {"config": cfg["id"], "paths": [], "violations": [], "inconclusive": [],
                   "harness_errors": ["worker produced no result (rc=%s): %s" % (p.returncode, (p.stderr or "")[-2000:])]}
    except subprocess.TimeoutExpired:
        res = {"config": cfg["id"], "paths": [], "violations": [], "harness_errors": [], "inconclusive": []}
        if os.path.exists(out + ".partial"):
            try:
                with open(out + ".partial") as f:
                    res = json.load(f)
            except Exception:
                pass
        res.setdefault("inconclusive", []).append({"path": "*", "why": "config exceeded its wall-time limit of %ds" % timeout_s})
    res.setdefault("wall_s", round(time.time() - t0, 2))
    return res


def replay(pid, path):
    from harness import base
    with open(path) as f:
        rp = json.load(f)
    mod = load(pid)
    cfgs = {c["id"]: c for c in mod.configs(rp.get("tier", "thorough"))}
    if rp["config"] not in cfgs:
        cfgs = {c["id"]: c for c in mod.configs("quick")}
    c = cfgs[rp["config"]]
    cr, er = base.run_concrete(c["scenario"], c.get("params", {}), "real", values=rp["values"], seed=0)
    print("replay of %s on the real code (float64, no shim): outcome=%r" % (rp["config"], cr.outcome))
    bad = False
    for cl in cr.claims:
        mark = ""
        if cl["name"] == rp["claim"]:
            mark = "   <== reported claim"
            bad = bad or cl["status"] == "failed"
        print("  claim %-40s %s %s%s" % (cl["name"], cl["status"], cl["detail"] or "", mark))
    if rp["claim"] == "no-unexpected-exception" and er is not None:
        bad = True
        print(getattr(cr, "tb", ""))
    if not bad and er is None:
        crr, err_ = base.run_concrete(c["scenario"], c.get("params", {}), "real", values=rp["values"], seed=0, relative=True)
        for cl in crr.claims:
            if cl["name"] == rp["claim"] and cl["status"] == "failed":
                bad = True
                print("  claim %-40s failed under the purely relative comparison: %s" % (cl["name"], cl["detail"]))
    if bad:
        print("VIOLATION property=%s replay=%s" % (pid, path))
        return EXIT_VIOLATION
    print("not reproduced")
    return EXIT_OK


def main():
    ap = argparse.ArgumentParser()
    ap.add_argument("pid")
    ap.add_argument("--tier", default=os.environ.get("VERIF_TIER", "quick"))
    ap.add_argument("--replay")
    ap.add_argument("--only")
    ap.add_argument("--jobs", type=int, default=int(os.environ.get("VERIF_JOBS", "16")))
    ap.add_argument("--worker")
    ap.add_argument("--out")
    ap.add_argument("--list", action="store_true")
    ap.add_argument("--no-evidence", action="store_true")
    a = ap.parse_args()
    pid = a.pid.upper()
    if a.worker:
        worker(pid, a.worker, a.tier, a.out)
        return 0
    if a.replay:
        return replay(pid, a.replay)
    mod = load(pid)
    t0 = time.time()
    cfgs = mod.configs(a.tier)
    if a.only:
        cfgs = [c for c in cfgs if a.only in c["id"]]
    if a.list:
        for c in cfgs:
            print(c["id"])
        return 0
    defaults = dict(getattr(mod, "DEFAULT_OPTS", {}))
    results = []
    with tempfile.TemporaryDirectory(prefix="verif_%s_" % pid) as tmpdir:
        def job(c):
            o = dict(defaults)
            o.update(c.get("opts", {}))
            return run_worker_subprocess(pid, c, a.tier, tmpdir, int(o.get("budget_s", 600)) + 120)
        with ThreadPoolExecutor(max_workers=a.jobs) as pool:
            results = list(pool.map(job, cfgs))
        # second chance: a configuration that ended with undecided claims while all workers competed for the cores (solver
        # timeouts are wall-clock) is run once more with little else running; the better of the two results is kept
        again = [i for i, r in enumerate(results) if r.get("inconclusive") and not r.get("violations")
                 and not r.get("harness_errors") and r.get("wall_s", 0) < (200 if a.tier == "quick" else 900)]
        if again and len(cfgs) > 1:
            with ThreadPoolExecutor(max_workers=min(4, a.jobs)) as pool:
                second = list(pool.map(job, [cfgs[i] for i in again]))
            for i, r2 in zip(again, second):
                r1 = results[i]
                if r2.get("violations") or (not r2.get("harness_errors")
                                            and len(r2.get("inconclusive", [])) < len(r1.get("inconclusive", []))):
                    r2["second_chance"] = True
                    results[i] = r2

    # ---- aggregate
    seed = int(os.environ.get("VERIF_SEED", "0") or 0)
    viol, known, herr, inconc = [], [], [], []
    os.makedirs(os.path.join(ROOT, "replays"), exist_ok=True)
    for r in results:
        for v in r.get("violations", []):
            kf = match_known(pid, r["config"], v["claim"])
            if kf is not None:
                known.append((r["config"], v, kf))
            else:
                viol.append((r["config"], v))
        for h in r.get("harness_errors", []):
            herr.append((r["config"], h))
        for i in r.get("inconclusive", []):
            inconc.append((r["config"], i))
    printed = set()
    for cfg_id, v, kf in known:
        key = kf.get("id", kf.get("what"))
        if key in printed:
            continue
        printed.add(key)
        print("KNOWN-FINDING: property=%s %s [config %s claim %s]" % (pid, kf.get("what"), cfg_id, v["claim"]))
    nrep = 0
    seen_v = set()
    for cfg_id, v in viol:
        if (cfg_id, v["claim"].split("#")[0]) in seen_v:
            continue
        seen_v.add((cfg_id, v["claim"].split("#")[0]))
        name = "%s_%s_%s.json" % (pid, cfg_id.replace("/", "_"), v["claim"].replace("/", "_").replace(" ", "_"))
        path = os.path.join(ROOT, "replays", name[:180])
        with open(path, "w") as f:
            json.dump({"property": pid, "config": cfg_id, "claim": v["claim"], "tier": a.tier,
                       "values": v.get("values"), "detail": v.get("detail"), "replay_result": v.get("replay"),
                       "path": v.get("path")}, f, indent=1, default=str)
        print("VIOLATION property=%s replay=%s" % (pid, path))
        print("   config=%s claim=%s detail=%s :: %s" % (cfg_id, v["claim"], v.get("detail"), v.get("replay", "")))
        nrep += 1
    for cfg_id, h in herr:
        print("HARNESS-ERROR config=%s: %s" % (cfg_id, h[:3000]))
    ninc_shown = 0
    for cfg_id, i in inconc:
        if ninc_shown < 12:
            print("INCONCLUSIVE config=%s path=%s: %s" % (cfg_id, i.get("path"), i.get("why")))
        ninc_shown += 1

    if not a.no_evidence and not a.only:
        write_evidence(pid, mod, a.tier, seed, results, viol, known, herr, inconc, time.time() - t0)
    tot_paths = sum(r.get("n_paths", 0) for r in results)
    tot_q = sum(r.get("queries", 0) for r in results)
    print("%s tier=%s configs=%d paths=%d queries=%d solver=%.1fs violations=%d known=%d inconclusive=%d harness_errors=%d wall=%.1fs" % (
        pid, a.tier, len(results), tot_paths, tot_q, sum(r.get("solver_s", 0) for r in results), len(viol), len(known),
        len(inconc), len(herr), time.time() - t0))
    if viol:
        return EXIT_VIOLATION
    if herr:
        return EXIT_HARNESS
    return EXIT_OK


def write_evidence(pid, mod, tier, seed, results, viol, known, herr, inconc, wall):
    meta = getattr(mod, "META", {})
    claims_by_status = {}
    decided_paths = 0
    claimed_paths = 0
    samples = []
    functions = set()
    aten = set()
    qk = {}
    for r in results:
        functions.update(r.get("functions", []))
        aten.update(r.get("aten_ops", []))
        for k, v in r.get("query_kinds", {}).items():
            qk[k] = qk.get(k, 0) + v
        for p in r.get("paths", []):
            dec = False
            for c in p.get("claims", []):
                claims_by_status[c["status"]] = claims_by_status.get(c["status"], 0) + 1
                if c["status"] in ("proved", "refuted") and c.get("secs", 0) > 0:
                    dec = True
            if dec:
                decided_paths += 1
            if p.get("claims"):
                claimed_paths += 1
        ps = r.get("paths", [])
        if ps and len(samples) < 6:
            p = ps[0]
            samples.append({"config": r["config"], "params": r.get("params"), "path_decisions": p.get("prefix"),
                            "outcome": p.get("outcome"),
                            "claims": [(c["name"], c["status"], c["secs"]) for c in p.get("claims", [])][:12],
                            "path_assumption_kinds": p.get("assumptions")})
    evaluations = sum(r.get("queries", 0) for r in results)
    shim = {"runs": sum(r.get("shim_validation", {}).get("runs", 0) for r in results),
            "agree": sum(r.get("shim_validation", {}).get("agree", 0) for r in results)}
    ev = {
        "property_id": pid,
        "tier": tier,
        "seed": seed,
        "level": meta.get("level", "model_checking"),
        "coverage": {
            "evaluations": max(evaluations, 0),
            "distinct_nontrivial": decided_paths if meta.get("level", "model_checking") == "model_checking" else claimed_paths,
            "rule": ("evaluations = SMT queries discharged (selector-feasibility and claim queries); a case is one (configuration, "
                     "execution path) of the real code = one combination of the symbolic selectors (crash point / structure / "
                     "aliasing pattern / call history) and branch decisions; it is counted as non-trivial when at least one claim "
                     "was evaluated on it (of these, %d had a claim decided by a solver call); paths are distinct by construction "
                     "(distinct decision prefixes)" % decided_paths)
            if meta.get("level", "model_checking") != "model_checking" else "evaluations = SMT queries discharged (path-feasibility, planted-factorisation and claim queries); "
                    "a case is one (configuration, execution path) of the real code run on symbolic tensors; it is counted as "
                    "non-trivial when at least one claim on it was decided by a solver call (not by constant folding); "
                    "paths are distinct by construction (distinct branch-decision prefixes)",
            "samples": samples or [{"note": "no path explored"}],
            "configs": len(results),
            "paths_explored": sum(r.get("n_paths", 0) for r in results),
            "paths_pruned_infeasible": sum(r.get("aborted_paths", 0) for r in results),
            "claims": claims_by_status,
            "queries_by_kind_and_result": qk,
            "solver_time_s": round(sum(r.get("solver_s", 0) for r in results), 2),
            "inconclusive": len(inconc),
            "inconclusive_samples": [{"config": c, **i} for c, i in inconc[:10]],
            "harness_errors": len(herr),
            "shim_validation": shim,
            "functions_encoded": sorted(functions),
            "aten_ops_modelled": sorted(aten),
            "bounds": meta.get("bounds"),
            "outside_bound": meta.get("outside"),
            "per_config": [{"config": r["config"], "paths": r.get("n_paths", 0), "queries": r.get("queries", 0),
                            "solver_s": r.get("solver_s", 0), "wall_s": r.get("wall_s", 0),
                            "violations": len(r.get("violations", [])), "inconclusive": len(r.get("inconclusive", []))}
                           for r in results],
            "known_findings_matched": [kf.get("what") for _, _, kf in known],
            "exhaustive": False,
        },
        "assumptions": meta.get("assumptions", []) + [
            "exact real arithmetic (floats are read as rationals: nearest rational with denominator <= 1e6 when within "
            "one ulp, else the exact binary value); rounding error is outside the claim",
            "z3 (one-shot QF_NRA/QF_UFNRA solver per query), torch's own dispatcher and autograd engine, and the ATen shim "
            "(validated against real torch on seeded inputs in every run) are trusted",
            "every symbolic division adds 'denominator != 0' to the path; LAPACK-backed kernels are replaced by their "
            "contracts (exact solve with det != 0, planted or closed-form factorisations)",
        ],
        "wall_s": round(wall, 2),
        "violations": len(viol),
    }
    os.makedirs(os.path.join(ROOT, "evidence"), exist_ok=True)
    with open(os.path.join(ROOT, "evidence", "%s.json" % pid), "w") as f:
        json.dump(ev, f, indent=1, default=str)


if __name__ == "__main__":
    sys.exit(main())
