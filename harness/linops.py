"""User-style LinearOperator classes used by several scenarios (fresh classes per call so that the
class-level capability cache of xitorch's LinearOperator never leaks between scenarios)."""
import torch
from xitorch import LinearOperator


def make_classes():
    class MvOnly(LinearOperator):
        def __init__(self, m, is_hermitian=False):
            super().__init__(shape=m.shape, dtype=m.dtype, device=m.device, is_hermitian=is_hermitian)
            self.m_ = m

        def _mv(self, x):
            return torch.matmul(self.m_, x.unsqueeze(-1)).squeeze(-1)

        def _getparamnames(self, prefix=""):
            return [prefix + "m_"]

    class MvRmv(LinearOperator):
        def __init__(self, m):
            super().__init__(shape=m.shape, dtype=m.dtype, device=m.device)
            self.m_ = m

        def _mv(self, x):
            return torch.matmul(self.m_, x.unsqueeze(-1)).squeeze(-1)

        def _rmv(self, x):
            return torch.matmul(self.m_.transpose(-2, -1).conj(), x.unsqueeze(-1)).squeeze(-1)

        def _getparamnames(self, prefix=""):
            return [prefix + "m_"]

    class MvMm(LinearOperator):
        def __init__(self, m):
            super().__init__(shape=m.shape, dtype=m.dtype, device=m.device)
            self.m_ = m

        def _mv(self, x):
            return torch.matmul(self.m_, x.unsqueeze(-1)).squeeze(-1)

        def _mm(self, x):
            return torch.matmul(self.m_, x)

        def _getparamnames(self, prefix=""):
            return [prefix + "m_"]

    class AllProducts(LinearOperator):
        def __init__(self, m):
            super().__init__(shape=m.shape, dtype=m.dtype, device=m.device)
            self.m_ = m

        def _mv(self, x):
            return torch.matmul(self.m_, x.unsqueeze(-1)).squeeze(-1)

        def _mm(self, x):
            return torch.matmul(self.m_, x)

        def _rmv(self, x):
            return torch.matmul(self.m_.transpose(-2, -1).conj(), x.unsqueeze(-1)).squeeze(-1)

        def _rmm(self, x):
            return torch.matmul(self.m_.transpose(-2, -1).conj(), x)

        def _fullmatrix(self):
            return self.m_

        def _getparamnames(self, prefix=""):
            return [prefix + "m_"]

    class Nonlinear(LinearOperator):
        """matrix-free operator that depends non-linearly on its parameter: A(w) = w*w (elementwise) + I"""

        def __init__(self, w):
            super().__init__(shape=w.shape, dtype=w.dtype, device=w.device)
            self.w = w

        def _mat(self):
            return self.w * self.w + torch.eye(self.w.shape[-1], dtype=self.w.dtype)

        def _mv(self, x):
            return torch.matmul(self._mat(), x.unsqueeze(-1)).squeeze(-1)

        def _getparamnames(self, prefix=""):
            return [prefix + "w"]

    return {"mvonly": MvOnly, "mvrmv": MvRmv, "mvmm": MvMm, "all": AllProducts, "nonlinear": Nonlinear}


def build_operator(kind, mats, classes=None):
    """operator of the given kind from a list of matrices; returns (operator, dense matrix expression)"""
    cl = classes or make_classes()
    m = mats[0]
    if kind == "dense":
        return LinearOperator.m(m, is_hermitian=False), m
    if kind == "dense_auto":
        return LinearOperator.m(m), m
    if kind == "herm":
        return LinearOperator.m(m, is_hermitian=True), m
    if kind == "herm_mv":
        return cl["mvonly"](m, is_hermitian=True), m
    if kind == "nonlinear":
        return cl[kind](m), m * m + torch.eye(m.shape[-1], dtype=m.dtype)
    if kind in cl:
        return cl[kind](m), m
    if kind == "add":
        return cl["mvonly"](m) + cl["mvrmv"](mats[1]), m + mats[1]
    if kind == "sub":
        return cl["mvrmv"](m) - cl["mvonly"](mats[1]), m - mats[1]
    if kind == "mul":
        return cl["mvrmv"](m) * 2.0, m * 2.0
    if kind == "rmul":
        return 3 * cl["mvonly"](m), m * 3
    if kind == "matmul":
        return cl["mvrmv"](m).matmul(cl["mvrmv"](mats[1])), torch.matmul(m, mats[1])
    if kind == "matmul_herm":
        # product of two Hermitian-flagged operators (the caller passes Hermitian matrices): not Hermitian unless they commute
        return cl["mvonly"](m, is_hermitian=True).matmul(cl["mvonly"](mats[1], is_hermitian=True)), torch.matmul(m, mats[1])
    if kind == "matmul_herm_dense":
        return LinearOperator.m(m, is_hermitian=True).matmul(cl["mvonly"](mats[1], is_hermitian=True)), torch.matmul(m, mats[1])
    if kind == "adjoint":
        return cl["mvrmv"](m).H, m.transpose(-2, -1).conj()
    if kind == "add_dense":
        return LinearOperator.m(m, is_hermitian=False) + cl["all"](mats[1]), m + mats[1]
    raise KeyError(kind)


def nmats(kind):
    return 2 if kind in ("add", "sub", "matmul", "add_dense", "matmul_herm", "matmul_herm_dense") else 1
