"""C05 - symeig and svd return the requested, correctly normalised spectral pairs."""
import torch
import xitorch
from xitorch import LinearOperator
from xitorch.linalg import symeig, svd

from harness.spectral import rot2, rot3, lower
from harness.linops import make_classes

PROPERTY = "C05"
DEFAULT_OPTS = {"validate": 2, "timeout_ms": 15000, "budget_s": 300, "max_paths": 60}

META = {
    "bounds": "n=2 (quick) and n=3 (thorough) with a planted eigendecomposition A = L V(t) diag(e) V(t)^T L^T, M = L L^T "
              "(rotation V rationally parametrised, eigenvalues e1<e2(<e3) symbolic with a gap, L lower-triangular symbolic); neig in "
              "1..n, modes lowest/uppest/uppermost in mixed letter case; methods exacteig and custom_exacteig; dense-wrapped and "
              "matrix-free operators; svd of planted 2x2, 3x2 and 2x3 matrices U diag(sigma) V^T (the factor of the larger side fixed at a rational rotation), k in 1..2, both modes; svd of Hermitian-FLAGGED operators with an indefinite planted spectrum V diag(+-sigma) V^T (all sign patterns, 2x2; 3x3 thorough)",
    "outside": "davidson beyond 2x2 / random starts (for 2x2 with v_init='eye': the returned pair meets the residual test when the "
               "iteration stops on a proper subspace - an exactly invariant start subspace such as a diagonal A then legitimately ends "
               "it, so extremeness is claimed only after the whole space has been searched, where the result is exact), clustered spectra accuracy, n>3, complex "
               "(thorough tier only for n=2), rounding",
    "assumptions": ["torch.linalg.eigh / cholesky are replaced by their contracts: they return the planted factors after z3 has "
                    "proved that the argument equals the planted product (eigenvalues distinct, so eigenvectors are unique up to sign)",
                    "eigenvalue gap > 1e-3 and |e| < 10"],
}


def _planted(cx, n, withM, thirds=False, fixed=False):
    if n == 2:
        t = cx.const(torch.tensor(0.5, dtype=torch.float64)) if fixed else cx.sym("t", ())
        V = rot2(t)
    else:
        q = cx.sym("q", (4,))
        cx.assume((q * q).sum() > 0.1, note="non-zero quaternion")
        V = rot3(q)
    e = cx.sym("e", (n,))
    for i in range(n - 1):
        cx.assume(e[i + 1] - e[i] > 1e-2, note="ascending eigenvalues with a gap")
    cx.assume(torch.all(e.abs() < 10))
    A0 = torch.matmul(V * e.unsqueeze(-2), V.transpose(-2, -1))
    if withM:
        if fixed:
            L = cx.const(torch.tensor([[1.0, 0.0], [0.5, 2.0]], dtype=torch.float64))
        else:
            L = lower(cx.sym("l", (n, n)), cx.sym("ld", (n,), positive=True, lo=0.5, hi=2))
        M = torch.matmul(L, L.transpose(-2, -1))
        A = torch.matmul(L, torch.matmul(A0, L.transpose(-2, -1)))
        cx.plant("cholesky", M, L)
        X = torch.linalg.solve_triangular(L.transpose(-2, -1), V, upper=True)     # L^-T V
    else:
        L = M = None
        A = A0
        X = V
    cx.plant("eigh", A0, (e, V))
    return A, M, e, V, X


def eig(cx, n=2, neig=2, mode="lowest", method="exacteig", withM=False, opkind="dense"):
    A, M, e, V, X = _planted(cx, n, withM)
    if opkind == "dense":
        Aop = LinearOperator.m(A, is_hermitian=True)
    else:
        Aop = make_classes()["mvonly"](A, is_hermitian=True)
    Mop = LinearOperator.m(M, is_hermitian=True) if withM else None
    with torch.no_grad():
        ev, vec = symeig(Aop, neig=neig, mode=mode, M=Mop, method=method)
    cx.claim_true("shapes", tuple(ev.shape) == (neig,) and tuple(vec.shape) == (n, neig),
                  detail="%s %s" % (tuple(ev.shape), tuple(vec.shape)))
    want = e[:neig] if mode.lower() == "lowest" else e[n - neig:]
    cx.claim_eq("eigenvalues are the requested extreme ones, ascending", ev, want)
    Mv = torch.matmul(M, vec) if withM else vec
    cx.claim_eq("A X = M X diag(E)", torch.matmul(A, vec), Mv * ev.unsqueeze(-2), observe=False)
    cx.claim_eq("X^H M X = I", torch.matmul(vec.transpose(-2, -1), Mv), torch.eye(neig, dtype=torch.float64))
    return "ok"


def dav(cx, neig=1, mode="lowest", withM=False, min_eps=1e-6, max_niter=5, fixed=False):
    """davidson on a planted 2x2 problem, deterministic start v_init='eye'.  In exact arithmetic the iteration either stops on its
    residual test with a proper subspace (claims: residual below min_eps for the RETURNED pair, M-normalisation) or exhausts
    the whole space (claims: exact eigenpairs, the requested extreme ones)."""
    n = 2
    A, M, e, V, X = _planted(cx, n, withM, fixed=fixed)
    Aop = make_classes()["mvonly"](A, is_hermitian=True)
    Mop = LinearOperator.m(M, is_hermitian=True) if withM else None
    napply = []
    mm0 = Aop._mv

    def counting_mv(x):
        napply.append(1)
        return mm0(x)
    Aop._mv = counting_mv
    with torch.no_grad():
        ev, vec = symeig(Aop, neig=neig, mode=mode, M=Mop, method="davidson", v_init="eye", min_eps=min_eps,
                         max_niter=max_niter)
    cx.claim_true("shapes", tuple(ev.shape) == (neig,) and tuple(vec.shape) == (n, neig),
                  detail="%s %s" % (tuple(ev.shape), tuple(vec.shape)))
    Mv = torch.matmul(M, vec) if withM else vec
    cx.claim_eq("X^H M X = I", torch.matmul(vec.transpose(-2, -1), Mv), torch.eye(neig, dtype=torch.float64), observe=False)
    resid = torch.matmul(A, vec) - Mv * ev.unsqueeze(-2)
    full = len(napply) >= n          # A has been applied to a basis of the whole space
    cx.note("columns A was applied to: %d" % len(napply))
    if full:
        want = e[:neig] if mode.lower() == "lowest" else e[n - neig:]
        cx.claim_eq("whole space searched: eigenvalues are the requested extreme ones", ev, want)
        cx.claim_eq("whole space searched: A X = M X diag(E)", resid, torch.zeros_like(resid), observe=False)
    else:
        cx.claim("stopped on a proper subspace => the returned pair meets the residual test",
                 torch.all(resid.abs() < cx.const(torch.tensor(min_eps, dtype=torch.float64))))
    return "ok"


def sv(cx, shape=(2, 2), k=None, mode="uppest", method="exacteig", herm_signs=None, opkind="dense"):
    """herm_signs: square case only - A = V diag(signs*sigma) V^T is symmetric with eigenvalues of the given signs (indefinite
    Hermitian operator flagged is_hermitian=True): the singular values are the MAGNITUDES of the eigenvalues, so the selection
    must go by magnitude and the signs move into U"""
    m, n = shape
    r = min(m, n)
    # the factor that survives in the Gram matrix svd() diagonalises is symbolic; the other one is fixed at a rational
    # rotation (keeps the identities within the solver's reach; stated in the bounds)
    gram_is_U = m < n
    tfix = cx.const(torch.tensor(0.5, dtype=torch.float64))
    qfix = cx.const(torch.tensor([1.0, 0.5, -0.25, 0.75], dtype=torch.float64))
    if m == 3:
        U = rot3(cx.sym("qu", (4,)) if gram_is_U else qfix)[:, :r]
    else:
        U = rot2(cx.sym("tu", ()) if gram_is_U else tfix)
    if n == 3:
        Vm = rot3(cx.sym("qv", (4,)) if not gram_is_U else qfix)[:, :r]
    else:
        Vm = rot2(cx.sym("tv", ()) if not gram_is_U else tfix)
    if herm_signs is not None:
        assert m == n
        sg = cx.const(torch.tensor([float(x) for x in herm_signs], dtype=torch.float64))
        Vm = rot2(cx.sym("tv", ())) if n == 2 else rot3(cx.sym("qv", (4,)))
        U = Vm * sg.unsqueeze(-2)
    sig = cx.sym("sig", (r,), positive=True, lo=0.25, hi=2)
    cx.assume(sig[0] > 1e-2)
    for i in range(r - 1):
        cx.assume(sig[i + 1] - sig[i] > 1e-2, note="ascending singular values with a gap")
    A = torch.matmul(U * sig.unsqueeze(-2), Vm.transpose(-2, -1))        # (m, n)
    # svd() diagonalises the smaller Gram matrix
    if m < n:
        G = torch.matmul(A, A.transpose(-2, -1))
        cx.plant("eigh", G, (sig * sig, U))
    else:
        G = torch.matmul(A.transpose(-2, -1), A)
        cx.plant("eigh", G, (sig * sig, Vm))
    for i in range(r):
        cx.plant("sqrt", (sig[i] * sig[i]).reshape(1), sig[i])
    kk = r if k is None else k
    with torch.no_grad():
        # is_hermitian=False: LinearOperator.m's automatic Hermiticity detection works with torch.allclose's tolerance; a
        # matrix inside that band but not exactly symmetric makes svd use A.A instead of A^T.A (by-design tolerance,
        # excluded here as in C11)
        if herm_signs is not None:
            Aop = LinearOperator.m(A, is_hermitian=True) if opkind == "dense" else make_classes()[opkind](A, is_hermitian=True)
        else:
            Aop = LinearOperator.m(A, is_hermitian=False)
        u, s, vh = svd(Aop, k=k, mode=mode, method=method)
    cx.claim_true("shapes", tuple(u.shape) == (m, kk) and tuple(s.shape) == (kk,) and tuple(vh.shape) == (kk, n),
                  detail="%s %s %s" % (tuple(u.shape), tuple(s.shape), tuple(vh.shape)))
    want = sig[:kk] if mode.lower() == "lowest" else sig[r - kk:]
    cx.claim_eq("singular values are the requested extreme ones", s, want)
    cx.claim("singular values non-negative", torch.all(s >= 0))
    cx.claim_eq("U^H U = I", torch.matmul(u.transpose(-2, -1), u), torch.eye(kk, dtype=torch.float64))
    cx.claim_eq("V^H V = I", torch.matmul(vh, vh.transpose(-2, -1)), torch.eye(kk, dtype=torch.float64))
    cx.claim_eq("A v_i = s_i u_i", torch.matmul(A, vh.transpose(-2, -1)), u * s.unsqueeze(-2), observe=False)
    if kk == r:
        cx.claim_eq("U S V^H = A", torch.matmul(u * s.unsqueeze(-2), vh), A)
    return "ok"


def configs(tier):
    cfgs = []

    def add(id_, scenario, opts=None, **params):
        cfgs.append({"id": id_, "scenario": scenario, "params": params, "opts": opts or {}})

    for method in ("exacteig", "custom_exacteig"):
        for withM in (False, True):
            for neig, mode in ((2, "lowest"), (1, "lowest"), (1, "uppest"), (1, "UpperMost")):
                add("symeig/%s/%s/n2/neig%d/%s" % (method, "AM" if withM else "A", neig, mode), eig, n=2, neig=neig, mode=mode,
                    method=method, withM=withM)
    add("symeig/default/A/n2/neig1/Lowest/mvonly", eig, n=2, neig=1, mode="Lowest", method=None, opkind="mvonly")
    add("symeig/custom_exacteig/AM/n2/neig1/uppest/mvonly", eig, n=2, neig=1, mode="uppest", method="custom_exacteig", withM=True,
        opkind="mvonly")
    for shape in ((2, 2), (3, 2), (2, 3)):
        for k, mode in ((None, "uppest"), (1, "lowest"), (1, "uppest"), (2, "lowest")):
            add("svd/%dx%d/k%s/%s" % (shape[0], shape[1], k, mode), sv, shape=shape, k=k, mode=mode)
    add("svd/3x2/k1/lowest/custom_exacteig", sv, shape=(3, 2), k=1, mode="lowest", method="custom_exacteig")
    # davidson (bounded: 2x2, deterministic start): returned pair vs. its own stopping rule, exact once the space is exhausted
    for withM in (False, True):
        for neig, mode in ((1, "lowest"), (1, "uppest"), (2, "lowest")):
            # neig=1 needs two iterations (nested roots): rotation and overlap factor fixed at rationals, eigenvalues symbolic
            add("davidson/eye/%s/n2/neig%d/%s%s" % ("AM" if withM else "A", neig, mode, "/fixedVL" if neig == 1 else ""), dav,
                neig=neig, mode=mode, withM=withM, fixed=(neig == 1), opts={"budget_s": 240, "timeout_ms": 20000})
    # Hermitian-flagged operators with an indefinite spectrum: singular values = magnitudes of the eigenvalues
    for signs in ((-1, 1), (1, -1), (-1, -1)):
        for k, mode in ((1, "uppest"), (1, "lowest"), (None, "uppest")):
            add("svd/herm2x2/signs%s/k%s/%s" % ("".join("m" if x < 0 else "p" for x in signs), k, mode), sv, shape=(2, 2), k=k,
                mode=mode, herm_signs=signs)
    add("svd/herm2x2/signsmp/k1/uppest/mvonly", sv, shape=(2, 2), k=1, mode="uppest", herm_signs=(-1, 1), opkind="mvonly")
    add("svd/herm2x2/signspm/k1/lowest/custom_exacteig", sv, shape=(2, 2), k=1, mode="lowest", herm_signs=(1, -1),
        method="custom_exacteig")
    if tier == "thorough":
        big = {"budget_s": 1700, "timeout_ms": 60000}
        for method in ("exacteig", "custom_exacteig"):
            for neig, mode in ((3, "lowest"), (2, "uppest"), (1, "lowest")):
                add("symeig/%s/A/n3/neig%d/%s" % (method, neig, mode), eig, n=3, neig=neig, mode=mode, method=method, opts=big)
            add("symeig/%s/AM/n3/neig2/lowest" % method, eig, n=3, neig=2, mode="lowest", method=method, withM=True, opts=big)
        for signs in ((-1, 1, -1), (1, -1, -1)):
            for k, mode in ((1, "uppest"), (2, "lowest")):
                add("svd/herm3x3/signs%s/k%s/%s" % ("".join("m" if x < 0 else "p" for x in signs), k, mode), sv, shape=(3, 3), k=k,
                    mode=mode, herm_signs=signs, opts=big)
    return cfgs
