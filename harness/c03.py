"""C03 - rootfinder/equilibrium/minimize return a point meeting the stopping test."""
import contextlib

import torch
import symtorch
import xitorch
from xitorch.optimize import rootfinder, equilibrium, minimize

from harness.base import Recorder
from harness.uf import UF

PROPERTY = "C03"
DEFAULT_OPTS = {"validate": 2, "timeout_ms": 10000, "budget_s": 420, "max_paths": 250}

META = {
    "bounds": "1-D problems with an UNINTERPRETED user function F (the solver ranges over all functions; derivatives DF, DDF are "
              "independent symbols) and 2-D affine/bilinear polynomial systems with symbolic coefficients; initial guess symbolic; "
              "maxiter <= 2 (quick) / 3 (thorough) so every path of the real loops up to that many iterations is explored; tolerance "
              "settings with x_tol != f_tol; line search off (on: 1 iteration, thorough)",
    "outside": "convergence of the quasi-Newton methods on general contractive problems and 'all methods return the same point' "
               "(need convergence theory, not a bounded statement); more iterations; rounding",
    "assumptions": ["module-level name `float` of xitorch._impls.optimize.minimizer is bound to a pass-through so that float(x.item()) "
                    "keeps the symbolic value (gd/adam)",
                    "module-level name `float` of the root-solver modules (rootsolver.py, equilibrium.py) is bound to a pass-through "
                    "that keeps symbolic values symbolic, except at the eta_A site which keeps its NaN treatment",
                    "the value of `eta` in _nonlin_solver is irrelevant (AST guard: no Jacobian model reads `tol`)"],
}


@contextlib.contextmanager
def sym_float(cx):
    """gd/adam call float(tensor.item()): keep the symbol instead of concretising (not needed on real tensors)"""
    import xitorch._impls.optimize.minimizer as mz
    if cx.mode == "real":
        yield
        return
    import builtins
    from symtorch import S

    def _float(x):
        if isinstance(x, S):
            return x
        return builtins.float(x)
    mz.float = _float
    try:
        yield
    finally:
        del mz.float


@contextlib.contextmanager
def sym_float_root(cx):
    """the root solvers' modules call float(...) on tensors; a symbolic value is kept symbolic (python's float() would force a
    concrete number) EXCEPT at the one site whose value provably does not matter (eta_A, guarded by the AST check in
    harness.base), which keeps its cheap NaN treatment so that it does not fork paths"""
    if cx.mode == "real":
        yield
        return
    import builtins
    import sys as _sys
    import linecache
    import xitorch._impls.optimize.root.rootsolver as rs
    import xitorch._impls.optimize.equilibrium as eqm
    from symtorch import S, SymTensor, D

    def _float(x):
        fr = _sys._getframe(1)
        if "eta_A = float(" in linecache.getline(fr.f_code.co_filename, fr.f_lineno):
            if isinstance(x, SymTensor) or isinstance(x, S):
                from harness import base as _base
                if not _base._jacobian_solve_ignores_tol():
                    raise symtorch.Inconclusive("eta_A is read by a Jacobian model: its value matters")
                return builtins.float("nan")
            return builtins.float(x)
        if isinstance(x, SymTensor) and x.numel() == 1:
            e = D(x).reshape(-1)[0]
            if isinstance(e, S) and e.const() is None:
                return e
        if isinstance(x, S):
            return x if x.const() is None else builtins.float(x.const())
        return builtins.float(x)
    rs.float = _float
    eqm.float = _float
    try:
        yield
    finally:
        del rs.float
        del eqm.float


def _norm(t):
    return t.reshape(-1).norm()


def rf1d(cx, entry="rootfinder", method="linearmixing", maxiter=2, f_tol=1e-3, x_tol=1e-1, line_search=False, alpha=None,
         shape=(1,), extra=None):
    F = UF(cx, "F")
    y0 = cx.sym("y0", shape)
    opts = dict(method=method, maxiter=maxiter, f_tol=f_tol, x_tol=x_tol)
    if method in ("newton", "broyden1", "broyden2", "linearmixing"):
        opts["line_search"] = line_search
    if alpha is not None:
        opts["alpha"] = alpha
    if extra:
        opts.update(extra)
    fn = {"rootfinder": rootfinder, "equilibrium": equilibrium, "minimize": minimize}[entry]
    if entry == "minimize":
        fcn = lambda y: F(y).sum()
    else:
        fcn = lambda y: F(y)
    with sym_float_root(cx), Recorder(xitorch.ConvergenceWarning) as rec, torch.no_grad():
        y = fn(fcn, y0, **opts)
    cx.claim_true("shape/dtype", tuple(y.shape) == tuple(y0.shape) and y.dtype == y0.dtype,
                  detail="%s %s" % (tuple(y.shape), y.dtype))
    if rec.warned:
        return "warned"
    if entry == "rootfinder":
        cx.claim("silent=>|f(y)|<f_tol", _norm(F(y)) < f_tol)
    elif entry == "equilibrium":
        cx.claim("silent=>|f(y)-y|<f_tol", _norm(F(y) - y) < f_tol)
    else:
        with torch.enable_grad():
            yy = y.detach().clone().requires_grad_()
            g, = torch.autograd.grad(F(yy).sum(), yy)
        cx.claim("silent=>|grad f(y)|<f_tol", _norm(g) < f_tol)
    return "silent"


def rf2d(cx, entry="rootfinder", method="newton", maxiter=1, f_tol=1e-3, x_tol=1e-1, alpha=None, shape=(2,), bilinear=False):
    """f(y) = b + A y (+ c * y0*y1): Newton is exact on the affine map"""
    n = 2
    A = cx.sym("A", (n, n))
    b = cx.sym("b", (n,))
    c = cx.sym("c", (n,)) if bilinear else None
    y0 = cx.sym("y0", shape)
    if entry == "equilibrium":
        # the equilibrium of g(y) = y - f(y) is the root of f
        cx.assume(torch.linalg.det(A) != 0, note="A nonsingular")

    def f(y):
        yf = y.reshape(n)
        r = b + torch.matmul(A, yf)
        if c is not None:
            r = r + c * yf[0] * yf[1]
        return r.reshape(y.shape)
    if entry != "equilibrium":
        cx.assume(torch.linalg.det(A) != 0, note="A nonsingular")
    opts = dict(method=method, maxiter=maxiter, f_tol=f_tol, x_tol=x_tol)
    if method in ("newton", "broyden1", "broyden2", "linearmixing"):
        opts["line_search"] = False
    if alpha is not None:
        opts["alpha"] = alpha
    with Recorder(xitorch.ConvergenceWarning) as rec, torch.no_grad():
        if entry == "rootfinder":
            y = rootfinder(f, y0, **opts)
        else:
            y = equilibrium(lambda y: y - f(y), y0, **opts)
    cx.claim_true("shape/dtype", tuple(y.shape) == tuple(y0.shape) and y.dtype == y0.dtype)
    if method == "newton" and not bilinear and entry == "rootfinder":
        # one exact Newton step on an affine map lands on the root and must return silently
        cx.claim_true("newton on an affine map converges silently", not rec.warned)
        cx.claim_eq("newton on an affine map returns the root", f(y), torch.zeros_like(y))
        return "newton-affine"
    if rec.warned:
        return "warned"
    cx.claim("silent=>|f(y)|<f_tol", _norm(f(y)) < f_tol)
    return "silent"


def exact_start(cx, entry="rootfinder", method="broyden1", complex_=False, shape=(2,)):
    """the initial guess is already an exact solution (warm start): the call returns it silently with the shape and dtype of
    the guess - real and complex unknowns"""
    y0 = cx.sym("y0", shape, complex_=complex_)
    c = (y0 * y0).detach().clone()
    if entry == "rootfinder":
        f = lambda y, c_: y * y - c_
        call = lambda: rootfinder(f, y0, params=(c,), method=method)
    else:
        f = lambda y, c_: y * y - c_ + y
        call = lambda: equilibrium(f, y0, params=(c,), method=method)
    with Recorder(Warning) as rec:
        with torch.no_grad():
            y = call()
    cx.claim_true("silent", not rec.warned, detail=str(rec.messages))
    cx.claim_true("shape and dtype of the initial guess", tuple(y.shape) == tuple(y0.shape) and y.dtype == y0.dtype,
                  detail="%s %s" % (tuple(y.shape), y.dtype))
    if tuple(y.shape) == tuple(y0.shape):
        cx.claim_eq("the exact solution is returned unchanged", y, y0)
    return "ok"


def descent(cx, method="gd", maxiter=2, step=0.25, extra=None, small_step=True, momentum=0.0):
    """gd/adam on the convex quadratic c*(y-r)^2 + d: the returned point (with or without warning) has f(y) <= f(y0).
    small_step: 0 < 2*step*c < 1 assumed (monotone descent); without it (and with momentum / adam, whose first steps have
    length `step` whatever the gradient) the iterates may overshoot, and the claim rests on the best-point bookkeeping"""
    c = cx.scalar("c", lo=0.25, hi=1.5, positive=True)
    r = cx.scalar("r")
    d = cx.scalar("d")
    y0 = cx.sym("y0", (1,))
    if small_step:
        cx.assume(c * (2 * step) < 1, note="step small enough for monotone descent")

    def f(y):
        return (c * (y - r) * (y - r) + d).sum()
    opts = dict(method=method, maxiter=maxiter, step=step)
    if method == "gd":
        opts["gamma"] = momentum
    if extra:
        opts.update(extra)
    import warnings
    with sym_float(cx), warnings.catch_warnings(record=True) as w, torch.no_grad():
        warnings.simplefilter("always")
        y = minimize(f, y0, **opts)
    warned = any("does not converge" in str(x.message) for x in w)
    cx.claim_true("shape/dtype", tuple(y.shape) == tuple(y0.shape) and y.dtype == y0.dtype)
    cx.claim("f(y)<=f(y0)", f(y) <= f(y0))
    return "warned" if warned else "silent"


def configs(tier):
    cfgs = []

    def add(id_, scenario, opts=None, **params):
        cfgs.append({"id": id_, "scenario": scenario, "params": params, "opts": opts or {}})

    for method, alpha, it in (("linearmixing", -1.0, 2), ("linearmixing", -0.5, 2), ("broyden1", -1.0, 1), ("broyden2", -0.5, 1),
                              ("newton", None, 1)):
        an = "" if alpha is None else "/a%s" % alpha
        add("rootfinder/%s%s/it%d" % (method, an, it), rf1d, entry="rootfinder", method=method, maxiter=it, alpha=alpha)
    add("rootfinder/broyden1/defaultalpha/it1", rf1d, entry="rootfinder", method="broyden1", maxiter=1)
    add("rootfinder/linearmixing/xtol<ftol/it2", rf1d, entry="rootfinder", method="linearmixing", maxiter=2, alpha=-1.0,
        f_tol=1e-1, x_tol=1e-3)
    add("rootfinder/linearmixing/shape(1,1)/it1", rf1d, entry="rootfinder", method="linearmixing", maxiter=1, alpha=-1.0,
        shape=(1, 1))
    for method, alpha, it in (("linearmixing", -1.0, 2), ("broyden1", -0.5, 1), ("newton", None, 1)):
        add("equilibrium/%s/it%d" % (method, it), rf1d, entry="equilibrium", method=method, maxiter=it, alpha=alpha)
    add("equilibrium/anderson_acc/it3", rf1d, entry="equilibrium", method="anderson_acc", maxiter=3, opts={"timeout_ms": 45000})
    for method, alpha, it in (("linearmixing", -1.0, 2), ("broyden1", -0.5, 1), ("newton", None, 1)):
        add("minimize/%s/it%d" % (method, it), rf1d, entry="minimize", method=method, maxiter=it, alpha=alpha)
    for cplx in (False, True):
        for method in ("broyden1", "newton", "linearmixing"):
            add("exact_start/rootfinder/%s/%s" % (method, "complex" if cplx else "real"), exact_start, method=method, complex_=cplx)
    add("exact_start/equilibrium/broyden2/complex", exact_start, entry="equilibrium", method="broyden2", complex_=True)
    add("exact_start/equilibrium/anderson_acc/complex/shape(2,1)", exact_start, entry="equilibrium", method="anderson_acc",
        complex_=True, shape=(2, 1))
    add("rootfinder2d/newton/affine", rf2d, entry="rootfinder", method="newton", maxiter=2)
    add("rootfinder2d/newton/affine/shape(2,1)", rf2d, entry="rootfinder", method="newton", maxiter=2, shape=(2, 1))
    add("rootfinder2d/linearmixing/affine/it1", rf2d, entry="rootfinder", method="linearmixing", maxiter=1, alpha=-0.5)
    add("rootfinder2d/broyden1/affine/it1", rf2d, entry="rootfinder", method="broyden1", maxiter=1, alpha=-0.5)
    add("equilibrium2d/linearmixing/affine/it1", rf2d, entry="equilibrium", method="linearmixing", maxiter=1, alpha=-0.5)
    add("minimize/gd/quadratic/it2", descent, method="gd", maxiter=2)
    add("minimize/gd/quadratic/it3", descent, method="gd", maxiter=3)
    add("minimize/gd/quadratic/any_step/momentum/it3", descent, method="gd", maxiter=3, small_step=False, momentum=0.9)
    add("minimize/adam/quadratic/any_step/it2", descent, method="adam", maxiter=2, small_step=False,
        opts={"budget_s": 300, "timeout_ms": 30000})
    if tier == "thorough":
        big = {"budget_s": 1700, "max_paths": 1500}
        for method, alpha, it in (("linearmixing", -1.0, 3), ("broyden1", -1.0, 2), ("broyden2", -0.5, 2), ("newton", None, 2)):
            an = "" if alpha is None else "/a%s" % alpha
            add("rootfinder/%s%s/it%d" % (method, an, it), rf1d, entry="rootfinder", method=method, maxiter=it, alpha=alpha, opts=big)
            add("equilibrium/%s%s/it%d" % (method, an, it), rf1d, entry="equilibrium", method=method, maxiter=it, alpha=alpha,
                opts=big)
        add("minimize/broyden1/it2", rf1d, entry="minimize", method="broyden1", maxiter=2, alpha=-0.5, opts=big)
        add("rootfinder/broyden1/linesearch/it1", rf1d, entry="rootfinder", method="broyden1", maxiter=1, alpha=-1.0,
            line_search=True, opts=big)
        add("rootfinder/linearmixing/linesearch/it1", rf1d, entry="rootfinder", method="linearmixing", maxiter=1, alpha=-1.0,
            line_search=True, opts=big)
        add("equilibrium/anderson_acc/it4", rf1d, entry="equilibrium", method="anderson_acc", maxiter=4, opts=big)
        add("rootfinder2d/newton/bilinear/it1", rf2d, entry="rootfinder", method="newton", maxiter=1, bilinear=True, opts=big)
        add("rootfinder2d/broyden1/affine/it2", rf2d, entry="rootfinder", method="broyden1", maxiter=2, alpha=-0.5, opts=big)
        add("minimize/broyden2/it2", rf1d, entry="minimize", method="broyden2", maxiter=2, alpha=-0.5, opts=big)
        add("minimize/adam/quadratic/it2", descent, method="adam", maxiter=2, opts=big)
    return cfgs
