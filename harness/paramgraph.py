"""Parameters that are not independent leaves (a tensor derived from another parameter, the same tensor passed twice):
the gradient w.r.t. the underlying leaf must follow the chain rule.  Reference (a differential, no formula): the same call
of the real code with INDEPENDENT leaves (a, b) of the same values, combined by the chain rule in the harness."""
import torch

from harness.base import grads, zero_if_none

KINDS = ("derived", "duplicate", "derived_only")


def param_graph_claims(cx, call, k, kind, others=(), second=True):
    """call(a, b) -> scalar loss computed by the functional under test with parameters (a, b) (for kind 'derived_only' the
    call must only use b).  k: the symbolic leaf.  others: further leaves whose gradient must not change."""
    if kind == "duplicate":
        mk_q, dq = (lambda: k), 1.0
    else:
        mk_q, dq = (lambda: 2 * k), 2.0
    only_b = kind == "derived_only"
    a = k.detach().clone().requires_grad_()
    b = mk_q().detach().clone().requires_grad_()

    def total(ga, gb):
        return gb * dq if only_b else ga + gb * dq
    others = list(others)
    ref = grads(call(a, b), [a, b] + others, create_graph=True)
    ga, gb = zero_if_none(ref[:2], [a, b])
    ref1 = total(ga, gb)
    g = None
    for cg in ((False, True) if second else (False,)):
        got = grads(call(k, mk_q()), [k] + others, create_graph=cg)
        g = got[0]
        cx.claim_eq("create_graph=%s: dL/dk = chain rule over independent leaves" % cg, g, ref1)
        for i, (x, y) in enumerate(zip(got[1:], ref[2:])):
            cx.claim_eq("create_graph=%s: dL/d(other leaf %d)" % (cg, i), x, y)
    if second:
        gg, = grads(g.sum(), [k])
        ha, hb = zero_if_none(grads(ref1.sum(), [a, b]), [a, b])
        cx.claim_eq("d2L/dk2 = chain rule over independent leaves", gg, total(ha, hb))
