"""C04 - implicit gradients of rootfinder/equilibrium/minimize are exact."""
import torch
import xitorch
from xitorch.optimize import rootfinder, equilibrium, minimize

from harness.base import grads, zero_if_none

PROPERTY = "C04"
DEFAULT_OPTS = {"validate": 2, "timeout_ms": 15000, "budget_s": 300, "max_paths": 40}

META = {
    "bounds": "ny in {1,2}; polynomial residual f(y,theta) (quadratic in y, 1-D; affine + bilinear term, 2-D) with fully symbolic "
              "coefficients; the forward solution is an arbitrary symbolic point y* supplied by a caller-defined method, and the "
              "constant term of f is chosen so that f(y*,theta)=0 holds identically; parameters as explicit tensors, nn.Module "
              "parameters, EditableModule tensors and mixtures with non-tensor / non-differentiable parameters; first and second order",
    "outside": "default Krylov backward for more than 5 unknowns (convergence is C01's subject), rounding, larger ny",
    "assumptions": ["df/dy nonsingular at the solution", "reference = two Newton steps unrolled in plain torch from the detached solution "
                    "(exact first and second derivatives of the solution map at a root)"],
}


def _planted(ystar):
    seen = {}

    def method(fcn, y0, params, **kw):
        seen["grad_enabled"] = torch.is_grad_enabled()
        seen["kw"] = dict(kw)
        return ystar.detach().clone()
    return method, seen


class NNMod(torch.nn.Module):
    def __init__(self, a, b):
        super().__init__()
        self.a = torch.nn.Parameter(a)
        self.b = torch.nn.Parameter(b)

    def forward(self, y, c):
        return self.a * y * y + self.b * y - c


class EdMod(xitorch.EditableModule):
    def __init__(self, a, b, scale):
        self.a = a
        self.b2 = b * 2          # a derived (non-leaf) tensor
        self.scale = scale       # python float, not a tensor

    def forward(self, y, c):
        return (self.a * y * y + self.b2 * 0.5 * y - c) * self.scale

    def getparamnames(self, methodname, prefix=""):
        if methodname == "forward":
            return [prefix + "a", prefix + "b2"]
        raise KeyError(methodname)


def ift1d(cx, entry="rootfinder", placement="explicit", second=True, bck_method=None, fix=False, warm=None, y0_grad=True):
    """f(y; a,b,c) = a*y^2 + b*y - c with c := a*ys^2 + b*ys (so ys is a root).  fix: the root, the initial guess, the
    non-differentiable tensor and the cotangent are fixed rationals (a, b stay symbolic) - used where the second-order claims
    through solve's own backward are beyond the solver with everything symbolic"""
    a = cx.sym("a", (1,), requires_grad=True)
    b = cx.sym("b", (1,), requires_grad=True)
    ys = cx.const(torch.tensor([0.75], dtype=torch.float64)) if fix else cx.sym("ys", (1,))
    c = (a * ys * ys + b * ys).detach().clone().requires_grad_()
    cx.assume(2 * a.detach() * ys + b.detach() != 0, note="df/dy != 0 at the root")
    y0 = cx.const(torch.tensor([0.5], dtype=torch.float64)).requires_grad_() if fix else cx.sym("y0", (1,), requires_grad=True)
    method, seen = _planted(ys)
    kw = {"method": method, "myoption": 3}
    if warm is not None:
        # warm start: a BUILT-IN method started exactly on the root (its zero-residual early exit returns at once)
        y0 = ys.detach().clone()
        if y0_grad:
            y0.requires_grad_()
        kw = {"method": warm}
    if bck_method is not None:
        kw["bck_options"] = {"method": bck_method}
    # a tensor parameter that does not require grad
    nondiff = cx.const(torch.tensor([-1.5], dtype=torch.float64)) if fix else cx.sym("nd", (1,))
    leaves = [a, b, c]
    if placement == "explicit":
        def f(y, a_, b_, c_, k, nd):
            return (a_ * y * y + b_ * y - c_) * k + nd * 0
        params = (a, b, c, 1.0, nondiff)
        fcn = f
    elif placement == "explicit_nd_first":
        # a non-differentiable tensor and a python number BEFORE the differentiable tensors
        def f(y, nd, k, a_, b_, c_):
            return (a_ * y * y + b_ * y - c_) * k + nd * 0
        params = (nondiff, 1.0, a, b, c)
        fcn = f
    elif placement == "nnmodule":
        mod = NNMod(a, b)
        leaves = [mod.a, mod.b, c]
        fcn, params = mod.forward, (c,)
    elif placement == "editable":
        mod = EdMod(a, b, 1.0)
        fcn, params = mod.forward, (c,)
    else:
        raise KeyError(placement)
    if entry == "rootfinder":
        y = rootfinder(fcn, y0, params=params, **kw)
    elif entry == "equilibrium":
        y = equilibrium(lambda y_, *p: y_ - fcn(y_, *p), y0, params=params, **kw) if placement == "explicit" else None
    elif entry == "minimize":
        # objective whose gradient is f
        def obj(y_, a_, b_, c_, k, nd):
            return ((a_ * y_ * y_ * y_ / 3 + b_ * y_ * y_ / 2 - c_ * y_) * k + nd * 0).sum()
        y = minimize(obj, y0, params=params, **kw)
    if warm is None:
        cx.claim_true("custom method called without grad and with the extra option",
                      seen.get("grad_enabled") is False and seen.get("kw", {}).get("myoption") == 3, detail=str(seen))
    else:
        cx.claim_true("the result is a new tensor, not the caller's initial guess", y is not y0)
    cx.claim_eq("value", y, ys)
    # reference: two Newton steps from the detached solution, plain torch
    la, lb, lc = leaves

    def fref(y_):
        return la * y_ * y_ + lb * y_ - lc

    def dfref(y_):
        return 2 * la * y_ + lb
    yr = ys.detach()
    for _ in range(2):
        yr = yr - fref(yr) / dfref(yr)
    g = cx.const(torch.tensor([1.25], dtype=torch.float64)) if fix else cx.sym("g", (1,))
    g1 = grads((g * y).sum(), leaves + ([y0] if y0.requires_grad else []), create_graph=second)
    if not y0.requires_grad:
        g1 = list(g1) + [None]
    g2 = grads((g * yr).sum(), leaves, create_graph=second)
    for nm, x, z in zip("abc", g1, g2):
        cx.claim_eq("d/d" + nm, x, z)
    cx.claim_true("initial guess gets no gradient", g1[3] is None, detail=str(g1[3]))
    if second:
        ga1 = zero_if_none(g1[:3], leaves)
        ga2 = zero_if_none(g2, leaves)
        w = [0.75, -1.25, 0.5]
        c1 = sum((wi * gi).sum() for wi, gi in zip(w, ga1))
        c2 = sum((wi * gi).sum() for wi, gi in zip(w, ga2))
        h1 = grads(c1, leaves)
        h2 = grads(c2, leaves)
        for nm, x, z in zip("abc", h1, h2):
            cx.claim_eq("d2/d" + nm, x, z)
    if placement == "nnmodule":
        cx.claim_true("module parameters restored", list(dict(mod.named_parameters()).keys()) == ["a", "b"]
                      and isinstance(mod.a, torch.nn.Parameter))
    return "ok"


def ift2d(cx, entry="rootfinder", second=False, bck_method=None, shape=(2,), fixed=None, bck_opts=None):
    """f(y) = P y + q*y0*y1 - r with r := P ys + q ys0 ys1"""
    if fixed is not None:
        # a fixed problem with a non-symmetric Jacobian (the cotangent stays symbolic): lets an ITERATIVE backward solver run
        # to exact convergence within the unrolling bound
        Pv, qv, yv = {0: ([[2.0, 1.0], [-0.5, 1.5]], [0.5, -0.25], [1.0, 0.5]),
                      1: ([[1.0, 2.0], [0.25, -1.5]], [0.0, 0.0], [0.5, -1.0])}[fixed]
        P = cx.const(torch.tensor(Pv, dtype=torch.float64)).requires_grad_()
        q = cx.const(torch.tensor(qv, dtype=torch.float64)).requires_grad_()
        ys = cx.const(torch.tensor(yv, dtype=torch.float64))
    else:
        P = cx.sym("P", (2, 2), requires_grad=True)
        q = cx.sym("q", (2,), requires_grad=True)
        ys = cx.sym("ys", (2,))
    r = (torch.matmul(P, ys) + q * ys[0] * ys[1]).detach().clone().requires_grad_()
    leaves = [P, q, r]

    def f(y, P_, q_, r_):
        yf = y.reshape(2)
        return (torch.matmul(P_, yf) + q_ * yf[0] * yf[1] - r_).reshape(y.shape)

    def jacm(y_, P_, q_):
        # dense Jacobian of f w.r.t. y (harness-side formula)
        col0 = P_[:, 0] + q_ * y_[1]
        col1 = P_[:, 1] + q_ * y_[0]
        return torch.stack([col0, col1], dim=-1)
    cx.assume(torch.linalg.det(jacm(ys, P.detach(), q.detach())) != 0, note="Jacobian nonsingular at the root")
    y0 = cx.sym("y0", shape)
    method, seen = _planted(ys.reshape(shape))
    kw = {"method": method}
    if bck_method is not None:
        kw["bck_options"] = dict({"method": bck_method}, **(bck_opts or {}))
    if entry == "rootfinder":
        y = rootfinder(f, y0, params=(P, q, r), **kw)
    else:
        y = equilibrium(lambda y_, *p: y_ - f(y_, *p), y0, params=(P, q, r), **kw)
    cx.claim_eq("value", y, ys.reshape(shape))
    yr = ys.detach()
    for _ in range(2 if second else 1):
        yr = yr - torch.linalg.solve(jacm(yr, P, q), f(yr, P, q, r).unsqueeze(-1)).squeeze(-1)
    g = cx.sym("g", (2,))
    g1 = grads((g * y.reshape(2)).sum(), leaves, create_graph=second)
    g2 = grads((g * yr).sum(), leaves, create_graph=second)
    for nm, x, z in zip(["P", "q", "r"], g1, g2):
        cx.claim_eq("d/d" + nm, x, z)
    if second:
        ga1 = zero_if_none(g1, leaves)
        ga2 = zero_if_none(g2, leaves)
        c1 = sum((0.5 * (i + 1) * gi).sum() for i, gi in enumerate(ga1))
        c2 = sum((0.5 * (i + 1) * gi).sum() for i, gi in enumerate(ga2))
        h1 = grads(c1, leaves)
        h2 = grads(c2, leaves)
        for nm, x, z in zip(["P", "q", "r"], h1, h2):
            cx.claim_eq("d2/d" + nm, x, z)
    return "ok"


def configs(tier):
    cfgs = []

    def add(id_, scenario, opts=None, **params):
        cfgs.append({"id": id_, "scenario": scenario, "params": params, "opts": opts or {}})

    for entry in ("rootfinder", "equilibrium", "minimize"):
        add("ift1d/%s/explicit/2nd" % entry, ift1d, entry=entry, placement="explicit", second=True)
    add("ift1d/rootfinder/explicit_nd_first", ift1d, entry="rootfinder", placement="explicit_nd_first", second=False)
    # second order through solve's own autograd Function (any backward method but the literal "exactsolve") with a
    # non-differentiable tensor and a number before the differentiable parameters: the Jacobian operator is re-evaluated with
    # substituted parameters inside solve's backward
    add("ift1d/rootfinder/explicit_nd_first/2nd/bck_custom_exactsolve/fixed_root_cotangent", ift1d, entry="rootfinder",
        placement="explicit_nd_first", second=True, bck_method="custom_exactsolve", fix=True)
    add("ift1d/rootfinder/nnmodule/2nd/bck_custom_exactsolve/fixed_root_cotangent", ift1d, entry="rootfinder", placement="nnmodule",
        second=True, bck_method="custom_exactsolve", fix=True)
    # warm start exactly on the root with the built-in methods (zero-residual early exit of the root solver)
    for m in ("broyden1", "newton", "linearmixing"):
        add("ift1d/rootfinder/explicit/warm_start_on_root/%s/2nd" % m, ift1d, entry="rootfinder", placement="explicit", second=True,
            warm=m)
    add("ift1d/rootfinder/explicit/warm_start_on_root/broyden1/y0_constant", ift1d, entry="rootfinder", placement="explicit",
        second=False, warm="broyden1", y0_grad=False)
    add("ift1d/equilibrium/explicit/warm_start_on_root/broyden2/2nd", ift1d, entry="equilibrium", placement="explicit", second=True,
        warm="broyden2")
    add("ift1d/rootfinder/nnmodule/2nd", ift1d, entry="rootfinder", placement="nnmodule", second=True)
    add("ift1d/rootfinder/editable/2nd", ift1d, entry="rootfinder", placement="editable", second=True)
    add("ift1d/rootfinder/explicit/bck_custom_exactsolve", ift1d, entry="rootfinder", placement="explicit", second=False,
        bck_method="custom_exactsolve")
    add("ift2d/rootfinder/1st", ift2d, entry="rootfinder")
    add("ift2d/equilibrium/1st", ift2d, entry="equilibrium")
    add("ift2d/rootfinder/1st/shape(2,1)", ift2d, entry="rootfinder", shape=(2, 1))
    add("ift2d/rootfinder/1st/bck_custom_exactsolve", ift2d, entry="rootfinder", bck_method="custom_exactsolve")
    # iterative backward solvers run to exact convergence (tolerances 0, n iterations) on fixed non-symmetric Jacobians
    exact_it = {"rtol": 0.0, "atol": 0.0, "max_niter": 2}
    add("ift2d/rootfinder/fixed0/bck_cg", ift2d, entry="rootfinder", fixed=0, bck_method="cg", bck_opts=exact_it)
    if tier == "thorough":
        add("ift2d/equilibrium/fixed1/bck_cg", ift2d, entry="equilibrium", fixed=1, bck_method="cg", bck_opts=exact_it,
            opts={"budget_s": 1500})
    # (gmres is not used here: the shipped gmres does not converge in n iterations on these 2x2 systems and says so with a
    # ConvergenceWarning, which is within its contract - an exact-gradient claim on it would demand more than the property)
    if tier == "thorough":
        big = {"budget_s": 1700, "timeout_ms": 60000}
        add("ift2d/rootfinder/2nd", ift2d, entry="rootfinder", second=True, opts=big)
        add("ift2d/equilibrium/2nd", ift2d, entry="equilibrium", second=True, opts=big)
        add("ift1d/minimize/explicit/bck_custom", ift1d, entry="minimize", placement="explicit", second=True,
            bck_method="custom_exactsolve", opts=big)
    return cfgs
