"""C11 - LinearOperator products are mutually consistent for every operator expression."""
import itertools

import torch
import xitorch
from xitorch import LinearOperator

from harness.linops import build_operator, nmats, make_classes

PROPERTY = "C11"
DEFAULT_OPTS = {"validate": 2, "timeout_ms": 10000, "budget_s": 300, "max_paths": 100}

META = {
    "bounds": "operator matrices 2x2, 2x3 and 3x2 with fully symbolic (real or complex) entries; operator batch extents <=2, "
              "operand batch extents <=2 (broadcast against the operator); expression trees of depth 1 (quick) and 2 (thorough) over the "
              "leaf kinds {mv only, mv+rmv, mv+mm, all products, dense-wrapped, Hermitian-flagged}; class hierarchies of 3 classes in all "
              "6 instantiation orders",
    "outside": "float32, larger matrices, trees deeper than 2, Jacobian operators as leaves (covered by C17), rounding",
    "assumptions": ["operands are arbitrary real/complex tensors of the stated shapes"],
}

SHAPES = {"sq": (2, 2), "wide": (2, 3), "tall": (3, 2)}
SQUARE_ONLY = {"herm", "herm_mv"}
AUTODETECT = {"dense", "dense_auto", "add_dense"}     # kinds on which LinearOperator.m's allclose test can run


def _H(m):
    return m.transpose(-2, -1).conj()


def assume_hermitian_or_clearly_not(cx, m):
    """LinearOperator.m(...) without a flag detects Hermiticity with torch.allclose (rtol 1e-5, atol 1e-8).  Matrices
    inside that tolerance band but not exactly Hermitian are, by design, treated as Hermitian and all identities then
    hold only to that tolerance; they are excluded here: the matrix is exactly Hermitian or differs from its adjoint
    by more than 1e-2*(1+|entry|) somewhere."""
    d = m - _H(m)
    exact = torch.all(d == 0)
    if m.dtype.is_complex:
        mag2 = d.real * d.real + d.imag * d.imag
        ref2 = m.real * m.real + m.imag * m.imag
        clear = torch.any(mag2 > 1e-4 * (1 + ref2))
    else:
        clear = torch.any(d.abs() > 1e-2 * (1 + m.abs()))
    cx.assume(exact | clear, note="matrix exactly Hermitian or clearly not (outside torch.allclose's tolerance band)")


def _check_products(cx, op, Amat, bx, complex_, tag="", r=2, check_H=True):
    p, q = Amat.shape[-2:]
    x = cx.sym("x" + tag, bx + (q,), complex_=complex_)
    X = cx.sym("X" + tag, bx + (q, r), complex_=complex_)
    y = cx.sym("y" + tag, bx + (p,), complex_=complex_)
    Y = cx.sym("Y" + tag, bx + (p, r), complex_=complex_)
    cx.claim_true("shape" + tag, tuple(op.shape[-2:]) == (p, q), detail=str(op.shape))
    cx.claim_eq("fullmatrix" + tag, op.fullmatrix(), Amat.expand(*op.shape) if Amat.ndim < len(op.shape) else Amat)
    cx.claim_eq("mv" + tag, op.mv(x), torch.matmul(Amat, x.unsqueeze(-1)).squeeze(-1))
    cx.claim_eq("mm" + tag, op.mm(X), torch.matmul(Amat, X))
    cx.claim_eq("rmv" + tag, op.rmv(y), torch.matmul(_H(Amat), y.unsqueeze(-1)).squeeze(-1))
    cx.claim_eq("rmm" + tag, op.rmm(Y), torch.matmul(_H(Amat), Y))
    if check_H:
        h = op.H
        cx.claim_eq("H.fullmatrix" + tag, h.fullmatrix(), _H(Amat).expand(*h.shape) if Amat.ndim < len(h.shape) else _H(Amat))
        cx.claim_eq("H.mv" + tag, h.mv(y), torch.matmul(_H(Amat), y.unsqueeze(-1)).squeeze(-1))
        cx.claim_eq("H.rmv" + tag, h.rmv(x), torch.matmul(Amat, x.unsqueeze(-1)).squeeze(-1))
        cx.claim_eq("H.H.mv" + tag, h.H.mv(x), torch.matmul(Amat, x.unsqueeze(-1)).squeeze(-1))


def assume_clearly_not_hermitian(cx, m):
    """a simple sufficient condition (one entry far outside the tolerance band) used for complex matrices, where the
    general 'exact or clearly not' disjunction is too hard for the solver"""
    first = m.reshape(-1, *m.shape[-2:])[0]
    if m.dtype.is_complex:
        e = first[0, 0]
        cx.assume(e.imag * e.imag > 1e-2 * (1 + e.real * e.real + e.imag * e.imag),
                  note="Im(m00) far from 0: clearly not Hermitian")
    else:
        cx.assume(first[0, 1] - first[1, 0] > 1e-1 * (1 + first[1, 0].abs()), note="m01 - m10 clearly non-zero")


def products(cx, kind="mvonly", shape="sq", ba=(), bx=(), complex_=False, herm_case=None, ba2=None):
    p, q = SHAPES[shape]
    ba2 = ba if ba2 is None else ba2       # batch shape of the second operand of a binary expression
    if kind == "matmul":
        mats = [cx.sym("a0", ba + (p, q), complex_=complex_), cx.sym("a1", ba2 + (q, p), complex_=complex_)]
    else:
        mats = [cx.sym("a%d" % i, (ba if i == 0 else ba2) + (p, q), complex_=complex_) for i in range(nmats(kind))]
    if kind in SQUARE_ONLY:
        mats = [(mats[0] + _H(mats[0])) * 0.5]
    if kind.startswith("matmul_herm"):
        mats = [(mt + _H(mt)) * 0.5 for mt in mats]
    if kind in AUTODETECT and p == q:
        if herm_case == "exact":
            mats[0] = (mats[0] + _H(mats[0])) * 0.5
        elif herm_case == "clear":
            assume_clearly_not_hermitian(cx, mats[0])
        else:
            assume_hermitian_or_clearly_not(cx, mats[0])
    with torch.no_grad():
        op, Amat = build_operator(kind, mats)
        _check_products(cx, op, Amat, bx, complex_)
    return "ok"


def depth2(cx, outer="add", inner1="mul", inner2="adjoint", complex_=False):
    """expression trees of depth 2: outer(inner1(leaves), inner2(leaves)) on 2x2 operators"""
    k1, k2 = nmats(inner1), nmats(inner2)
    mats1 = [cx.sym("a%d" % i, (2, 2), complex_=complex_) for i in range(k1)]
    mats2 = [cx.sym("b%d" % i, (2, 2), complex_=complex_) for i in range(k2)]
    if inner1 in SQUARE_ONLY:
        mats1 = [(mats1[0] + _H(mats1[0])) * 0.5]
    if inner2 in SQUARE_ONLY:
        mats2 = [(mats2[0] + _H(mats2[0])) * 0.5]
    for k, ms in ((inner1, mats1), (inner2, mats2)):
        if k in AUTODETECT:
            assume_hermitian_or_clearly_not(cx, ms[0])
    with torch.no_grad():
        o1, m1 = build_operator(inner1, mats1)
        o2, m2 = build_operator(inner2, mats2)
        from xitorch._core.linop import MatrixLinearOperator
        if isinstance(o1, MatrixLinearOperator) and isinstance(o2, MatrixLinearOperator) and outer in ("add", "sub"):
            assume_hermitian_or_clearly_not(cx, m1 + m2 if outer == "add" else m1 - m2)
        if outer == "add":
            op, Amat = o1 + o2, m1 + m2
        elif outer == "sub":
            op, Amat = o1 - o2, m1 - m2
        elif outer == "matmul":
            op, Amat = o1.matmul(o2), torch.matmul(m1, m2)
        elif outer == "mulH":
            op, Amat = (o1 * 3).H, _H(m1 * 3)
        elif outer == "Hmatmul":
            op, Amat = o1.H.matmul(o2), torch.matmul(_H(m1), m2)
        else:
            raise KeyError(outer)
        _check_products(cx, op, Amat, (), complex_)
    return "ok"


def errors(cx, case="mv_shape"):
    """shape / Hermiticity violations are rejected with an error"""
    cl = make_classes()
    m = cx.sym("a0", (2, 3))
    op = cl["mvrmv"](m)

    def raises(f, excs=(RuntimeError, TypeError, AssertionError)):
        try:
            f()
        except excs:
            return True
        return False

    with torch.no_grad():
        if case == "mv_shape":
            cx.claim_true("mv wrong size", raises(lambda: op.mv(cx.sym("x", (2,)))))
            cx.claim_true("mm wrong size", raises(lambda: op.mm(cx.sym("X", (2, 2)))))
            cx.claim_true("rmv wrong size", raises(lambda: op.rmv(cx.sym("y", (3,)))))
            cx.claim_true("rmm wrong size", raises(lambda: op.rmm(cx.sym("Y", (3, 2)))))
            cx.claim_true("mv right size accepted", not raises(lambda: op.mv(cx.sym("x2", (3,)))))
        elif case == "compose_shape":
            op2 = cl["mvonly"](cx.sym("a1", (2, 3)))
            sq = cl["mvonly"](cx.sym("a2", (2, 2)))
            cx.claim_true("matmul mismatch", raises(lambda: op.matmul(op2)))
            cx.claim_true("add mismatch", raises(lambda: op + sq))
            cx.claim_true("sub mismatch", raises(lambda: op - sq))
            cx.claim_true("mul by tensor", raises(lambda: op * cx.sym("f", ())))
            cx.claim_true("matmul ok", not raises(lambda: sq.matmul(op)))
        elif case == "hermitian_flag":
            s = cx.sym("s", (2, 2))
            # the matrix is symmetric iff s01 == s10: both branches are explored
            sym = torch.allclose(s, s.transpose(-2, -1))
            r = raises(lambda: LinearOperator.m(s, is_hermitian=True))
            cx.claim_true("non-Hermitian matrix flagged Hermitian is rejected", r == (not sym),
                          detail="symmetric=%s raised=%s" % (sym, r))
            cx.claim_true("non-square Hermitian", raises(lambda: cl["mvonly"](m, is_hermitian=True)))
            auto = LinearOperator.m(s)
            cx.claim_true("auto Hermitian detection", bool(auto.is_hermitian) == bool(sym))
            return "symmetric" if sym else "nonsymmetric"
        elif case == "no_mv_history":
            # a class without _mv is rejected EVERY time it is instantiated (not only the first time), and a valid subclass
            # of it works whatever was attempted before (fresh classes per run)
            class NoMv(LinearOperator):
                def __init__(self, mat):
                    super().__init__(shape=mat.shape, dtype=mat.dtype, device=mat.device)
                    self.m_ = mat

                def _getparamnames(self, prefix=""):
                    return [prefix + "m_"]

            class WithMv(NoMv):
                def _mv(self, x):
                    return torch.matmul(self.m_, x.unsqueeze(-1)).squeeze(-1)

            k = cx.choose(3, "history")
            if k == 1:
                WithMv(m)
            if k == 2:
                cx.claim_true("subclass before: class without _mv rejected", raises(lambda: NoMv(m)))
                WithMv(m)
            for i in range(3):
                cx.claim_true("class without _mv rejected, attempt %d" % (i + 1), raises(lambda: NoMv(m)))
            good = WithMv(m)
            x = cx.sym("x", (3,))
            cx.claim_eq("valid subclass of a rejected class: mv", good.mv(x), torch.matmul(m, x.unsqueeze(-1)).squeeze(-1))
            cx.claim_true("valid subclass flags", (good.is_mv_implemented, good.is_rmv_implemented) == (True, False))
    return "ok"


def history(cx, order=(0, 1, 2), complex_=False):
    """an operator class behaves according to the methods it defines, whatever was instantiated before"""

    class Parent(LinearOperator):
        def __init__(self, m):
            super().__init__(shape=m.shape, dtype=m.dtype, device=m.device)
            self.m_ = m

        def _mv(self, x):
            return torch.matmul(self.m_, x.unsqueeze(-1)).squeeze(-1)

        def _getparamnames(self, prefix=""):
            return [prefix + "m_"]

    calls = {"rmv": 0, "mm": 0}

    class Child(Parent):
        def _rmv(self, x):
            calls["rmv"] += 1
            return torch.matmul(self.m_.transpose(-2, -1).conj(), x.unsqueeze(-1)).squeeze(-1)

        def _mm(self, x):
            calls["mm"] += 1
            return torch.matmul(self.m_, x)

    class Other(LinearOperator):
        def __init__(self, m):
            super().__init__(shape=m.shape, dtype=m.dtype, device=m.device)
            self.m_ = m

        def _mv(self, x):
            return torch.matmul(self.m_, x.unsqueeze(-1)).squeeze(-1)

        def _fullmatrix(self):
            return self.m_

        def _getparamnames(self, prefix=""):
            return [prefix + "m_"]

    classes = [Parent, Child, Other]
    mats = [cx.sym("a%d" % i, (2, 3), complex_=complex_) for i in range(3)]
    ops = [None, None, None]
    with torch.no_grad():
        for k in order:
            ops[k] = classes[k](mats[k])
        P, Cc, O = ops
        cx.claim_true("parent flags", (P.is_rmv_implemented, P.is_mm_implemented, P.is_rmm_implemented,
                                       P.is_fullmatrix_implemented) == (False, False, False, False))
        cx.claim_true("child flags", (Cc.is_rmv_implemented, Cc.is_mm_implemented, Cc.is_rmm_implemented,
                                      Cc.is_fullmatrix_implemented) == (True, True, False, False),
                      detail=str((Cc.is_rmv_implemented, Cc.is_mm_implemented)))
        cx.claim_true("other flags", (O.is_rmv_implemented, O.is_mm_implemented, O.is_fullmatrix_implemented)
                      == (False, False, True))
        for tag, op, m in (("/parent", P, mats[0]), ("/child", Cc, mats[1]), ("/other", O, mats[2])):
            _check_products(cx, op, m, (), complex_, tag=tag, check_H=False)
        cx.claim_true("child's own _rmv and _mm are used", calls["rmv"] > 0 and calls["mm"] > 0, detail=str(calls))
        # a scaled / summed child keeps working in both directions
        s = Cc * 2.0 + P
        y = cx.sym("ys", (2,), complex_=complex_)
        cx.claim_eq("(2C+P).rmv", s.rmv(y), torch.matmul(_H(mats[1] * 2.0 + mats[0]), y.unsqueeze(-1)).squeeze(-1))
    return "ok"


def configs(tier):
    cfgs = []

    def add(id_, scenario, opts=None, **params):
        cfgs.append({"id": id_, "scenario": scenario, "params": params, "opts": opts or {}})

    kinds = ["mvonly", "mvrmv", "mvmm", "all", "dense", "dense_auto", "herm", "herm_mv", "add", "sub", "mul", "rmul",
             "matmul", "adjoint", "add_dense"]
    for kind in kinds:
        for shape in (("sq",) if kind in SQUARE_ONLY else ("sq", "wide", "tall")):
            if tier == "quick" and shape == "tall" and kind not in ("mvonly", "matmul", "adjoint"):
                continue
            add("products/%s/%s/real" % (kind, shape), products, kind=kind, shape=shape)
        if kind in AUTODETECT:
            add("products/%s/sq/complex/exactHermitian" % kind, products, kind=kind, shape="sq", complex_=True, herm_case="exact")
            add("products/%s/sq/complex/nonHermitian" % kind, products, kind=kind, shape="sq", complex_=True, herm_case="clear")
        else:
            add("products/%s/sq/complex" % kind, products, kind=kind, shape="sq", complex_=True)
    for kind in ("matmul_herm", "matmul_herm_dense"):
        add("products/%s/sq/real" % kind, products, kind=kind, shape="sq")
        add("products/%s/sq/complex" % kind, products, kind=kind, shape="sq", complex_=True)
    for kind in ("mvonly", "mvrmv", "dense", "add", "mul", "matmul", "adjoint", "herm"):
        add("products/%s/sq/batchA2_x1" % kind, products, kind=kind, shape="sq", ba=(2,), bx=(1,))
        add("products/%s/sq/batchA_x2" % kind, products, kind=kind, shape="sq", ba=(), bx=(2,))
    # the operand has fewer (non-singleton) batch dimensions than the operator
    for kind in ("mvonly", "mvrmv", "mvmm", "add", "mul", "adjoint", "herm_mv", "dense"):
        add("products/%s/sq/batchA22_x2" % kind, products, kind=kind, shape="sq", ba=(2, 2), bx=(2,))
    add("products/mvonly/wide/batchA22_x2", products, kind="mvonly", shape="wide", ba=(2, 2), bx=(2,))
    add("products/mvonly/wide/batchA2_x21", products, kind="mvonly", shape="wide", ba=(2,), bx=(2, 1))
    # operands of a binary expression with different batch shapes (either one the more batched)
    for kind in ("add", "sub", "matmul", "add_dense"):
        add("products/%s/sq/batch_first()_second(2)" % kind, products, kind=kind, shape="sq", ba=(), ba2=(2,))
        add("products/%s/sq/batch_first(2)_second()" % kind, products, kind=kind, shape="sq", ba=(2,), ba2=())
    add("products/add/sq/batch_first(1)_second(2)_x2", products, kind="add", shape="sq", ba=(1,), ba2=(2,), bx=(2,))
    for case in ("mv_shape", "compose_shape", "hermitian_flag", "no_mv_history"):
        add("errors/%s" % case, errors, case=case)
    for order in itertools.permutations(range(3)):
        add("history/%s/real" % "".join(map(str, order)), history, order=order)
    add("history/012/complex", history, order=(0, 1, 2), complex_=True)
    add("history/102/complex", history, order=(1, 0, 2), complex_=True)
    outers = ["add", "sub", "matmul", "mulH", "Hmatmul"]
    inners = ["mvonly", "mul", "adjoint", "add", "matmul", "dense", "herm_mv"]
    if tier == "quick":
        combos = [("add", "mul", "adjoint"), ("matmul", "mvonly", "mul"), ("mulH", "add", "mvonly"),
                  ("Hmatmul", "mvonly", "add"), ("sub", "matmul", "herm_mv")]
        for o, i1, i2 in combos:
            add("depth2/%s/%s/%s/real" % (o, i1, i2), depth2, outer=o, inner1=i1, inner2=i2)
        add("depth2/add/mul/adjoint/complex", depth2, outer="add", inner1="mul", inner2="adjoint", complex_=True)
        add("depth2/Hmatmul/mvonly/mul/complex", depth2, outer="Hmatmul", inner1="mvonly", inner2="mul", complex_=True)
    else:
        for o in outers:
            for i1 in inners:
                for i2 in inners:
                    if o == "mulH" and i2 != "mvonly":
                        continue
                    add("depth2/%s/%s/%s/real" % (o, i1, i2), depth2, outer=o, inner1=i1, inner2=i2)
        for o, i1, i2 in [("add", "mul", "adjoint"), ("Hmatmul", "mvonly", "mul"), ("matmul", "adjoint", "add"),
                          ("mulH", "matmul", "mvonly"), ("sub", "herm_mv", "mul")]:
            add("depth2/%s/%s/%s/complex" % (o, i1, i2), depth2, outer=o, inner1=i1, inner2=i2, complex_=True)
    return cfgs
