"""C09 - a function gives the same results however its parameters are supplied."""
import numpy as np
import torch
import xitorch
from xitorch.optimize import rootfinder, equilibrium
from xitorch.integrate import solve_ivp, quad, mcquad
from xitorch.grad import jac, hess
from xitorch._core.pure_function import make_sibling, get_pure_function

from harness.base import grads, zero_if_none

PROPERTY = "C09"
DEFAULT_OPTS = {"validate": 2, "timeout_ms": 15000, "budget_s": 300, "max_paths": 40}

META = {
    "bounds": "one polynomial map g(y; a, b, c) = a*y^2 + b*y - c*w(y) with symbolic leaves a, b, c supplied in 11 representations "
              "(pure function, nn.Module, nested nn.Module, nn.Module with a tied (shared) Parameter, EditableModule with derived / aliased / list- and dict-held tensors, "
              "nn.Module inside EditableModule, single siblings, siblings of 2 and of 3 methods of different objects) x functionals {rootfinder (caller-supplied forward), "
              "solve_ivp (euler, 2 steps), quad (n=2), jac products, mcquad (mhcustom, thorough)} x requires_grad patterns {all, first "
              "frozen, last frozen}; values, first- and second-order gradients w.r.t. the underlying leaves are proved identical to the "
              "pure-function representation",
    "outside": "scripted functions, larger modules, rounding",
    "assumptions": ["differential claim: no oracle other than the pure-function run of the same real code"],
}


class NN(torch.nn.Module):
    def __init__(self, a, b, c, frozen):
        super().__init__()
        self.a = torch.nn.Parameter(a, requires_grad=a.requires_grad)
        self.b = torch.nn.Parameter(b, requires_grad=b.requires_grad)
        self.c = torch.nn.Parameter(c, requires_grad=c.requires_grad)

    def forward(self, y):
        return self.a * y * y + self.b * y - self.c


class NNRev(torch.nn.Module):
    """parameters registered in the order c, b, a: with c frozen, a non-differentiable parameter PRECEDES the differentiable
    ones and the parameter the map is non-linear in comes last"""
    def __init__(self, a, b, c):
        super().__init__()
        self.c = torch.nn.Parameter(c, requires_grad=c.requires_grad)
        self.b = torch.nn.Parameter(b, requires_grad=b.requires_grad)
        self.a = torch.nn.Parameter(a, requires_grad=a.requires_grad)

    def forward(self, y):
        return self.a * y * y + self.b * y - self.c


class Inner(torch.nn.Module):
    def __init__(self, a, b):
        super().__init__()
        self.a = torch.nn.Parameter(a, requires_grad=a.requires_grad)
        self.b = torch.nn.Parameter(b, requires_grad=b.requires_grad)

    def forward(self, y):
        return self.a * y * y + self.b * y


class NNNested(torch.nn.Module):
    def __init__(self, a, b, c):
        super().__init__()
        self.inner = Inner(a, b)
        self.c = torch.nn.Parameter(c, requires_grad=c.requires_grad)

    def forward(self, y):
        return self.inner(y) - self.c


class Ed(xitorch.EditableModule):
    """derived tensor (b2 = 2b), aliased tensor (a held twice), list- and dict-held tensors"""

    def __init__(self, a, b, c):
        self.a1 = a
        self.a2 = a                  # alias of the same tensor
        self.b2 = b * 2              # derived, non-leaf
        self.lst = [c * 0.25, c * 0.25]
        self.dct = {"half": c * 0.5}

    def forward(self, y):
        return (self.a1 + self.a2) * 0.5 * y * y + self.b2 * 0.5 * y - (self.lst[0] + self.lst[1] + self.dct["half"])

    def getparamnames(self, methodname, prefix=""):
        if methodname == "forward":
            return [prefix + "a1", prefix + "a2", prefix + "b2", prefix + "lst[0]", prefix + "lst[1]", prefix + "dct['half']"]
        raise KeyError(methodname)


class EdWithNN(xitorch.EditableModule):
    def __init__(self, a, b, c):
        self.inner = Inner(a, b)
        self.c = c

    def forward(self, y):
        return self.inner(y) - self.c

    def getparamnames(self, methodname, prefix=""):
        if methodname == "forward":
            return [prefix + "inner.a", prefix + "inner.b", prefix + "c"]
        raise KeyError(methodname)


def build(kind, a, b, c):
    """returns (callable taking (y, *explicit), explicit params tuple, [leaf_a, leaf_b, leaf_c]): torch.nn.Parameter wraps
    its data in a NEW leaf, so for module representations the underlying leaves are the module's parameters"""
    if kind == "pure":
        return (lambda y, a_, b_, c_: a_ * y * y + b_ * y - c_), (a, b, c), [a, b, c]
    if kind == "nn":
        m = NN(a, b, c, None)
        return m.forward, (), [m.a, m.b, m.c]
    if kind == "nn_rev":
        m = NNRev(a, b, c)
        return m.forward, (), [m.a, m.b, m.c]
    if kind == "nn_nested":
        m = NNNested(a, b, c)
        return m.forward, (), [m.inner.a, m.inner.b, m.c]
    if kind == "editable":
        return Ed(a, b, c).forward, (), [a, b, c]
    if kind == "editable_nn":
        m = EdWithNN(a, b, c)
        return m.forward, (), [m.inner.a, m.inner.b, c]
    if kind == "sibling":
        m = NN(a, b, c, None)

        @make_sibling(m.forward)
        def sib(y):
            return m.forward(y) * 1.0
        return sib, (), [m.a, m.b, m.c]
    if kind == "multi_sibling":
        m1 = Inner(a, b)
        m2 = EdWithNN((a * 0).detach(), (b * 0).detach(), c)     # only c matters

        @make_sibling(m1.forward, m2.forward)
        def sib2(y):
            return m1.forward(y) + m2.forward(y)
        return sib2, (), [m1.a, m1.b, c]
    if kind == "multi_sibling3":
        # three methods of three objects of different kinds (a: EditableModule, b: nn.Module, c: EditableModule with 2 tensors)
        class OnlyA(xitorch.EditableModule):
            def __init__(self, a_):
                self.a = a_

            def forward(self, y):
                return self.a * y * y

            def getparamnames(self, methodname, prefix=""):
                return [prefix + "a"]

        class OnlyB(torch.nn.Module):
            def __init__(self, b_):
                super().__init__()
                self.b = torch.nn.Parameter(b_, requires_grad=b_.requires_grad)

            def forward(self, y):
                return self.b * y

        class OnlyC(xitorch.EditableModule):
            def __init__(self, c_):
                self.c1 = c_ * 0.5
                self.c2 = c_ * 2

            def forward(self, y):
                return self.c1 + self.c2 * 0.25

            def getparamnames(self, methodname, prefix=""):
                return [prefix + "c1", prefix + "c2"]
        ma, mb, mc = OnlyA(a), OnlyB(b), OnlyC(c)

        @make_sibling(ma.forward, mb.forward, mc.forward)
        def sib3(y):
            return ma.forward(y) + mb.forward(y) - mc.forward(y)
        return sib3, (), [a, mb.b, c]
    if kind == "nn_tied":
        # the SAME Parameter registered in two sub-modules (tied weights): a enters through both
        class Part(torch.nn.Module):
            def __init__(self, a_):
                super().__init__()
                self.a = a_

            def forward(self, y):
                return self.a * y * y * 0.5

        class Tied(torch.nn.Module):
            def __init__(self, a_, b_, c_):
                super().__init__()
                pa = torch.nn.Parameter(a_, requires_grad=a_.requires_grad)
                self.enc = Part(pa)
                self.dec = Part(pa)
                self.b = torch.nn.Parameter(b_, requires_grad=b_.requires_grad)
                self.c = torch.nn.Parameter(c_, requires_grad=c_.requires_grad)

            def forward(self, y):
                return self.enc(y) + self.dec(y) + self.b * y - self.c
        m = Tied(a, b, c)
        return m.forward, (), [m.enc.a, m.b, m.c]
    if kind == "mixed":
        # a held by a module, b and c explicit
        class Half(torch.nn.Module):
            def __init__(self, a_):
                super().__init__()
                self.a = torch.nn.Parameter(a_, requires_grad=a_.requires_grad)

            def forward(self, y, b_, c_):
                return self.a * y * y + b_ * y - c_
        m = Half(a)
        return m.forward, (b, c), [m.a, b, c]
    raise KeyError(kind)


def _run(functional, fcn, params, cx, aux):
    if functional == "rootfinder":
        ys = aux["ys"]
        method = lambda f, y0, p, **kw: ys.detach().clone()
        return rootfinder(fcn, aux["y0"], params=params, method=method)
    if functional == "rootfinder_bck":
        # the backward linear solve goes through solve's own autograd Function (any method but the literal "exactsolve"),
        # which re-evaluates the Jacobian operator with substituted parameters
        ys = aux["ys"]
        method = lambda f, y0, p, **kw: ys.detach().clone()
        return rootfinder(fcn, aux["y0"], params=params, method=method, bck_options={"method": "custom_exactsolve"})
    if functional == "solve_ivp":
        # the adapter must stay a sibling of the user's function (a plain lambda would hide the object's parameters)
        @make_sibling(fcn)
        def rhs(t, y, *p):
            return fcn(y, *p) + t
        return solve_ivp(rhs, aux["ts"], aux["y0"], params=params, method="euler")
    if functional == "quad":
        return quad(fcn, aux["xl"], aux["xu"], params=params, n=2)
    if functional == "equilibrium":
        # y = g(y)+y has the roots of g as fixed points; the forward is a caller-supplied method returning ys
        ys = aux["ys"]
        method = lambda f, y0, p, **kw: ys.detach().clone()

        @make_sibling(fcn)
        def fixed(y, *p):
            return fcn(y, *p) + y
        return equilibrium(fixed, aux["y0"], params=params, method=method)
    if functional == "quad_tuple":
        @make_sibling(fcn)
        def two(x, *p):
            v = fcn(x.reshape(1), *p)
            return (v, v * x)
        r = quad(two, aux["xl"], aux["xu"], params=params, n=2)
        return r[0] + 2 * r[1]
    if functional == "hess":
        yy = aux["y0"].detach().clone().requires_grad_()

        @make_sibling(fcn)
        def scal(y, *p):
            return (fcn(y, *p) * y * y).sum()
        op = hess(scal, (yy, *params), idxs=0)
        return op.mv(aux["v"])
    if functional == "jac":
        yy = aux["y0"].detach().clone().requires_grad_()
        op = jac(fcn, (yy, *params), idxs=0)
        return op.mv(aux["v"]) + op.rmv(aux["v"])
    if functional == "mcquad":
        step = lambda x, *pp: x * 0.5 + 1.0
        return mcquad(fcn, lambda x: (-x * x).sum(), aux["y0"], fparams=params, pparams=(), method="mhcustom",
                      nsamples=2, nburnout=1, custom_step=step)
    raise KeyError(functional)


def same(cx, functional="rootfinder", kind="nn", pattern="all", second=True):
    req = {"all": (True, True, True), "first_frozen": (False, True, True), "last_frozen": (True, True, False),
           "middle_frozen": (True, False, True)}[pattern]
    a = cx.sym("a", (1,), requires_grad=req[0])
    b = cx.sym("b", (1,), requires_grad=req[1])
    ys = cx.sym("ys", (1,))
    if functional in ("rootfinder", "rootfinder_bck", "equilibrium"):
        # c chosen so that ys is a root (value a leaf)
        c = (a.detach() * ys * ys + b.detach() * ys).clone().requires_grad_(req[2])
        cx.assume(2 * a.detach() * ys + b.detach() != 0)
    else:
        c = cx.sym("c", (1,), requires_grad=req[2])
    aux = {"ys": ys, "y0": cx.sym("y0", (1,)), "v": cx.sym("v", (1,)), "xl": cx.sym("xl", ()), "xu": cx.sym("xu", ())}
    t0 = cx.scalar("t0")
    aux["ts"] = cx.from_array(np.array([t0, t0 + 0.5, t0 + 1.25], dtype=object))
    w = cx.sym("w", (1,))
    outs = []
    for k in ("pure", kind):
        fcn, params, lv = build(k, a, b, c)
        leaves = [t for t, r in zip(lv, req) if r]
        out = _run(functional, fcn, params, cx, aux)
        loss = (w * out).sum()
        g = grads(loss, leaves, create_graph=second)
        h = None
        if second:
            gz = zero_if_none(g, leaves)
            contr = sum((0.5 * (i + 1) * gi).sum() for i, gi in enumerate(gz))
            if isinstance(contr, torch.Tensor) and contr.requires_grad:
                try:
                    h = grads(contr, leaves)
                except RuntimeError as e:
                    # plain torch behaviour when the first-order gradient does not depend on the leaves (function linear
                    # in its parameters): both representations must then behave alike
                    if "does not require grad" not in str(e):
                        raise
                    h = "no-second-derivative"
        outs.append((out, g, h))
    (o1, g1, h1), (o2, g2, h2) = outs
    cx.claim_eq("value", o2, o1)
    for i, (x, y) in enumerate(zip(g2, g1)):
        cx.claim_eq("d/dleaf%d" % i, x, y)
    if isinstance(h1, str) or isinstance(h2, str):
        cx.claim_true("second-order behaviour identical", h1 == h2, detail="%s / %s" % (h1 if isinstance(h1, str) else "grads",
                                                                                  h2 if isinstance(h2, str) else "grads"))
    elif h1 is not None or h2 is not None:
        for i in range(sum(req)):
            cx.claim_eq("d2/dleaf%d" % i, None if h2 is None else h2[i], None if h1 is None else h1[i])
    return "ok"


def uniquifier(cx, n=4):
    """Uniquifier (the alias bookkeeping of every pure-function wrapper) on n objects with SYMBOLIC identities: for every aliasing
    pattern get_unique_objs keeps the first occurrences, and map_unique_objs puts a replacement at exactly the positions of
    its alias class"""
    from xitorch._utils import unique as umod
    from harness.symid import symbolic_ids, rebound_id
    from symtorch.core import band
    objs = [object() for _ in range(n)]
    vals = symbolic_ids(cx, n)
    with rebound_id(umod, objs, vals):
        u = umod.Uniquifier(objs)
    uo = u.get_unique_objs()
    idx = {id(o): i for i, o in enumerate(objs)}
    uidx = [idx[id(o)] for o in uo]

    def conj(terms):
        r = None
        for t in terms:
            r = t if r is None else band(r, t)
        return r
    cx.claim_true("unique objects in order of first appearance", uidx == sorted(uidx) and uidx[0] == 0)
    firsts = [vals[j] != vals[k_] for k_ in uidx for j in range(k_)]
    if firsts:
        cx.claim("each unique object is a first occurrence", conj(firsts))
    new = [object() for _ in uo]
    mapped = u.map_unique_objs(new)
    cx.claim_true("one replacement per position", len(mapped) == n and all(any(m is v for v in new) for m in mapped))
    if len(mapped) == n:
        cx.claim("position i receives the replacement of its own alias class",
                 conj([vals[uidx[[k_ for k_, v in enumerate(new) if v is mapped[i]][0]]] == vals[i] for i in range(n)]))
    other = [object() for _ in range(n)]
    sel = u.get_unique_objs(other)
    cx.claim_true("get_unique_objs(other list) selects the same positions", [o for o in sel] == [other[i] for i in uidx])
    return "%d unique of %d" % (len(uo), n)


def configs(tier):
    cfgs = []

    def add(id_, scenario, opts=None, **params):
        cfgs.append({"id": id_, "scenario": scenario, "params": params, "opts": opts or {}})

    kinds = ["nn", "nn_nested", "nn_tied", "editable", "editable_nn", "sibling", "multi_sibling", "multi_sibling3", "mixed"]
    functionals = ["rootfinder", "solve_ivp", "quad", "jac"]
    # functionals that wrap the user's function in a sibling of their own
    for fn in ("equilibrium", "quad_tuple", "hess"):
        for kind in ("editable", "nn", "editable_nn"):
            add("%s/%s/all" % (fn, kind), same, functional=fn, kind=kind, pattern="all", second=fn != "hess")
    for fn in functionals:
        for kind in kinds:
            add("%s/%s/all" % (fn, kind), same, functional=fn, kind=kind, pattern="all", second=True)
        for kind in ("nn", "editable_nn", "mixed", "sibling"):
            add("%s/%s/first_frozen" % (fn, kind), same, functional=fn, kind=kind, pattern="first_frozen", second=fn != "jac")
        add("%s/nn/last_frozen" % fn, same, functional=fn, kind="nn", pattern="last_frozen", second=False)
    for kind in ("nn", "nn_rev", "editable_nn", "mixed"):
        for pattern in ("first_frozen", "last_frozen", "middle_frozen"):
            add("rootfinder_bck/%s/%s" % (kind, pattern), same, functional="rootfinder_bck", kind=kind, pattern=pattern, second=True,
                opts={"budget_s": 400, "timeout_ms": 30000})
    for fn in ("rootfinder", "solve_ivp", "quad", "jac"):
        for pattern in ("all", "last_frozen", "middle_frozen"):
            add("%s/nn_rev/%s" % (fn, pattern), same, functional=fn, kind="nn_rev", pattern=pattern, second=fn != "jac")
    for n in ((2, 3, 4, 5) if tier == "quick" else (2, 3, 4, 5, 6)):
        add("uniquifier/n%d" % n, uniquifier, n=n, opts={"max_paths": 1000, "max_decisions": 400, "budget_s": 900})
    if tier == "thorough":
        for kind in kinds:
            add("mcquad/%s/all" % kind, same, functional="mcquad", kind=kind, pattern="all", second=True, opts={"budget_s": 900})
        add("mcquad/nn/first_frozen", same, functional="mcquad", kind="nn", pattern="first_frozen", second=True, opts={"budget_s": 900})
    return cfgs
