"""C08 - solve_ivp gradients w.r.t. y0, parameters and times are the true sensitivities."""
from fractions import Fraction

import numpy as np
import torch
import xitorch
from xitorch.integrate import solve_ivp

import symtorch
from symtorch import S, T, D
from symtorch.jets import J
from harness.base import grads, zero_if_none
from harness.paramgraph import param_graph_claims
from harness.c07 import POLY, _jet_tensor

PROPERTY = "C08"
DEFAULT_OPTS = {"validate": 2, "timeout_ms": 15000, "budget_s": 300, "max_paths": 40}

META = {
    "bounds": "scalar ODE y' = sum c_ij t^i y^j (theta multiplies the y-dependent part), symbolic t0, y0, theta, cotangent; one "
              "step t0 -> t0 +- h with h a formal power-series variable: the Taylor coefficients h^0..h^p of the gradients returned by "
              "the REAL autograd path (public solve_ivp -> _SolveIVP.backward -> adjoint integrated with the same scheme) w.r.t. y0, "
              "theta and both time points equal those of the exact sensitivities (variational equations, Picard recursion); p=1 for "
              "euler, 4 for rk4/rk38.  Real-valued runs: tuple state = tensor state, graph-recording backward = plain backward, "
              "module-held / explicit / unused parameters, two intervals with cotangents on all outputs",
    "outside": "adaptive methods' gradients beyond 'same as their own forward code path' (step acceptance is data dependent), "
               "second order on series, rounding",
    "assumptions": ["exact sensitivities from the variational equations S_y' = f_y S_y, S_th' = f_y S_th + f_th; time gradients "
                    "dy(t1)/dt1 = f(t1,y1), dy(t1)/dt0 = -S_y f(t0,y0)"],
}


def _rhs_theta(co, th):
    def f(t, y, *params):
        thv = params[0] if params else th
        r = 0
        for (i, j), c in co.items():
            term = c
            for _ in range(i):
                term = term * t
            for _ in range(j):
                term = term * y
            if j > 0:
                term = term * thv
            r = r + term
        return r
    return f


def _exact_sens(co, t0, y0, th, sigma):
    """series in h of y, S_y, S_theta at t0 + sigma*h"""
    tt = J([t0, S(sigma)])

    def pw(a, k):
        r = J([S(1)])
        for _ in range(k):
            r = r * a
        return r

    def F(y):
        r = J([S(0)])
        for (i, j), c in co.items():
            r = r + J([c]) * pw(tt, i) * pw(y, j) * (J([th]) if j > 0 else J([S(1)]))
        return r

    def Fy(y):
        r = J([S(0)])
        for (i, j), c in co.items():
            if j > 0:
                r = r + J([c * j]) * pw(tt, i) * pw(y, j - 1) * J([th])
        return r

    def Fth(y):
        r = J([S(0)])
        for (i, j), c in co.items():
            if j > 0:
                r = r + J([c]) * pw(tt, i) * pw(y, j)
        return r

    def integ(a, c0):
        return J([c0] + [a.c[k] * Fraction(sigma, k + 1) for k in range(J.P)])
    y = J([y0])
    Sy = J([S(1)])
    Sth = J([S(0)])
    for _ in range(J.P + 2):
        y, Sy, Sth = integ(F(y), y0), integ(Fy(y) * Sy, S(1)), integ(Fy(y) * Sth + Fth(y), S(0))
    f_end = F(y)                       # f(t1, y1) as a series
    f_start = J([sum((c * (t0 ** i) * (y0 ** j) * (th if j > 0 else 1) for (i, j), c in co.items()), S(0))])
    return y, Sy, Sth, f_end, f_start


def series_grad(cx, method="rk4", p=4, sigma=1):
    names = {ij: "c%d%d" % ij for ij in POLY}
    if cx.mode == "sym":
        J.P = p + 1
        co = {ij: cx.scalar(names[ij]) for ij in POLY}
        t0 = cx.scalar("t0")
        y0 = cx.scalar("y0")
        th = cx.scalar("th")
        g = cx.scalar("g")
        f = _rhs_theta({ij: _jet_tensor(J([c])) for ij, c in co.items()}, None)
        ts = T(np.array([J([t0]), J([t0, S(sigma)])], dtype=object), dtype=symtorch.ops.FLOAT).requires_grad_()
        y0t = T(np.array([J([y0])], dtype=object), dtype=symtorch.ops.FLOAT).requires_grad_()
        tht = T(np.array([J([th])], dtype=object), dtype=symtorch.ops.FLOAT).requires_grad_()
        unused = T(np.array([J([S(Fraction(1, 2))])], dtype=object), dtype=symtorch.ops.FLOAT).requires_grad_()
        yt = solve_ivp(lambda t, y, th_, u_: f(t, y, th_), ts, y0t, params=(tht, unused), method=method)
        gt = T(np.array([J([g])], dtype=object), dtype=symtorch.ops.FLOAT)
        gy0, gth, gts, gun = grads((gt * yt[1]).sum(), [y0t, tht, ts, unused])
        y, Sy, Sth, f_end, f_start = _exact_sens(co, t0, y0, th, sigma)
        for k in range(p + 1):
            cx.claim("d/dy0: coefficient of h^%d" % k, gy0._d[0].c[k] == (g * Sy.c[k]))
            cx.claim("d/dtheta: coefficient of h^%d" % k, gth._d[0].c[k] == (g * Sth.c[k]))
            # time gradients are taken w.r.t. the actual time points: t1 = t0 + sigma*h
            cx.claim("d/dt1: coefficient of h^%d" % k, gts._d[1].c[k] == (g * f_end.c[k]))
            cx.claim("d/dt0: coefficient of h^%d" % k, gts._d[0].c[k] == (-(J([g]) * Sy * f_start).c[k]))
        if gun is not None:
            cx.claim_eq("unused tensor gets a zero gradient", gun, torch.zeros_like(unused))
        return "ok"
    # real-mode counterpart: deviation from the exact sensitivities bounded by B*h^(p+1)
    co = {ij: float(cx.scalar(names[ij])) for ij in POLY}
    t0 = float(cx.scalar("t0"))
    y0 = float(cx.scalar("y0"))
    th = float(cx.scalar("th"))
    g = float(cx.scalar("g"))
    h = 0.02 if p >= 3 else 0.002
    J.P = p + 4
    y, Sy, Sth, f_end, f_start = _exact_sens({k: S(v) for k, v in co.items()}, S(t0), S(y0), S(th), sigma)
    ev = lambda jj: sum(float(c.n) * h ** k for k, c in enumerate(jj.c))
    fn = _rhs_theta({ij: cx.const(torch.tensor(v, dtype=torch.float64)) for ij, v in co.items()}, None)
    ts = cx.const(torch.tensor([t0, t0 + sigma * h], dtype=torch.float64)).requires_grad_()
    y0t = cx.const(torch.tensor([y0], dtype=torch.float64)).requires_grad_()
    tht = cx.const(torch.tensor([th], dtype=torch.float64)).requires_grad_()
    unused = cx.const(torch.tensor([0.5], dtype=torch.float64)).requires_grad_()
    yt = solve_ivp(lambda t, yv, th_, u_: fn(t, yv, th_), ts, y0t, params=(tht, unused), method=method)
    gy0, gth, gts, gun = grads(g * yt[1].sum(), [y0t, tht, ts, unused])
    scale = 1 + abs(g) * (1 + abs(ev(Sy)) + abs(ev(Sth)) + abs(ev(f_end)))
    B = 200 * scale * h ** (p + 1) + 1e-10
    checks = {"d/dy0": abs(float(gy0) - g * ev(Sy)), "d/dtheta": abs(float(gth) - g * ev(Sth)),
              "d/dt1": abs(float(gts[1]) - g * ev(f_end)), "d/dt0": abs(float(gts[0]) + g * ev(Sy * f_start))}
    for nm, dev in checks.items():
        for k in range(p + 1):
            cx.claim_true("%s: coefficient of h^%d" % (nm, k), dev <= B, detail="deviation %.3e (bound %.3e)" % (dev, B))
    if gun is not None:
        cx.claim_eq("unused tensor gets a zero gradient", gun, torch.zeros_like(unused))
    return "ok"


class Dyn(torch.nn.Module):
    def __init__(self, k, gcoef):
        super().__init__()
        self.k = torch.nn.Parameter(k)
        self.gcoef = torch.nn.Parameter(gcoef)

    def forward(self, t, ys, s):
        x, z = ys
        return (-self.k * x + t * 0, s * self.gcoef * x)

    def forward_cat(self, t, y, s):
        x = y[:1]
        return torch.cat([-self.k * x + t * 0, s * self.gcoef * x])


def representations(cx, method="rk4", npoints=3, reverse=False):
    """tuple state vs concatenated state, object-held parameters, graph-recording vs plain backward: identical gradients"""
    k = cx.sym("k", (1,), requires_grad=True)
    gc = cx.sym("gc", (1,), requires_grad=True)
    s = cx.sym("s", (1,), requires_grad=True)
    x0 = cx.sym("x0", (1,), requires_grad=True)
    z0 = cx.sym("z0", (1,), requires_grad=True)
    t0 = cx.scalar("t0")
    dt = cx.scalar("dt", lo=0.25, hi=1, positive=True)
    sgn = -1 if reverse else 1
    ts = cx.from_array(np.array([t0 + sgn * dt * i for i in range(npoints)], dtype=object)).requires_grad_()
    mod = Dyn(k, gc)
    w = cx.sym("w", (npoints, 2))
    # tensor state, plain backward = reference representation
    ycat = solve_ivp(mod.forward_cat, ts, torch.cat([x0, z0]), params=(s,), method=method)
    leaves = [mod.k, mod.gcoef, s, x0, z0, ts]
    names = ["k", "gcoef", "s", "x0", "z0", "ts"]
    ref = grads((w * ycat).sum(), leaves)
    # tuple state
    ytup = solve_ivp(mod.forward, ts, (x0, z0), params=(s,), method=method)
    cx.claim_eq("tuple state: values", torch.cat([ytup[0], ytup[1]], dim=-1), ycat)
    ltup = (w[:, :1] * ytup[0]).sum() + (w[:, 1:] * ytup[1]).sum()
    for cg in (False, True):
        got = grads(ltup, leaves, create_graph=cg)
        for nm, a, b in zip(names, got, ref):
            cx.claim_eq("tuple state, create_graph=%s: d/d%s" % (cg, nm), a, b)
    got = grads((w * ycat).sum(), leaves, create_graph=True)
    for nm, a, b in zip(names, got, ref):
        cx.claim_eq("tensor state, create_graph=True: d/d%s" % nm, a, b)
    # the exact structure: z' depends on x only => d z(t)/d z0 = 1 for all t
    gz0, = grads(ycat[:, 1].sum(), [z0])
    cx.claim_eq("d sum_t z(t) / d z0 = number of time points", gz0, torch.full_like(z0, float(npoints)))
    return "ok"


def param_graph(cx, method="euler", kind="derived", reverse=False):
    """parameters that are not independent leaves: a tensor derived from another parameter (q = 2k, both passed), the same
    tensor passed twice, a derived tensor alone.  Reference (differential): the same call with INDEPENDENT leaves (a, b) of
    the same values, combined by the chain rule in the harness; first order with the plain and the graph-recording
    backward, second order."""
    k = cx.sym("k", (1,), requires_grad=True)
    y0 = cx.sym("y0", (1,), requires_grad=True)
    t0 = cx.scalar("t0")
    dt = cx.scalar("dt", lo=0.25, hi=1, positive=True)
    sgn = -1 if reverse else 1
    ts = cx.from_array(np.array([t0 + sgn * dt * i for i in range(3)], dtype=object))
    w = cx.sym("w", (3, 1))

    def f(t, y, a, b):
        return -(a * b) * y + t * a

    def f1(t, y, b):
        return -b * y + t * b * b
    if kind == "derived_only":
        call = lambda a, b: (w * solve_ivp(f1, ts, y0, params=(b,), method=method)).sum()
    else:
        call = lambda a, b: (w * solve_ivp(f, ts, y0, params=(a, b), method=method)).sum()
    param_graph_claims(cx, call, k, kind, others=[y0])
    return "ok"


def option_flow(cx, case="sequence"):
    """which options the backward integration runs with.  The method is a caller-supplied callable that records the options it is
    given and delegates to the real rk4 / euler steppers.  'sequence': three calls in one process with different options and no
    bck_options (the backward of each call must see the options of ITS OWN forward, nothing left over from an earlier call);
    'bck_options': a different method and option for the backward pass (the forward callable runs exactly once, the backward
    one does the adjoint integration and sees the forward options overridden by bck_options)."""
    from xitorch._impls.integrate.ivp.explicit_rk import rk4_ivp, fwd_euler_ivp
    k = cx.sym("k", (1,), requires_grad=True)
    y0 = cx.sym("y0", (1,), requires_grad=True)
    ts = cx.const(torch.tensor([0.25, 0.75, 1.0], dtype=torch.float64))
    w = cx.sym("w", (3, 1))
    seen = []

    def f(t, y, k_):
        return -k_ * y + t

    def fwd_method(fcn, ts_, y0_, params, **kw):
        seen.append(("fwd_method", dict(kw)))
        return rk4_ivp(fcn, ts_, y0_, params)

    def bck_method(fcn, ts_, y0_, params, **kw):
        seen.append(("bck_method", dict(kw)))
        return rk4_ivp(fcn, ts_, y0_, params)
    if case == "sequence":
        with torch.no_grad():
            solve_ivp(f, ts, y0, params=(k,), method=fwd_method, myopt=1, other=10)
        n1 = len(seen)
        y = solve_ivp(f, ts, y0, params=(k,), method=fwd_method, myopt=2)
        g2 = grads((w * y).sum(), [k, y0])
        calls2 = seen[n1:]
        cx.claim_true("second call: forward and backward see exactly the options of the second call",
                      len(calls2) >= 2 and all(kw == {"myopt": 2} for _, kw in calls2), detail=str(calls2))
        n2 = len(seen)
        y = solve_ivp(f, ts, y0, params=(k,), method=fwd_method)
        g3 = grads((w * y).sum(), [k, y0])
        calls3 = seen[n2:]
        cx.claim_true("third call without options: forward and backward see no option",
                      len(calls3) >= 2 and all(kw == {} for _, kw in calls3), detail=str(calls3))
        for nm, a, b in zip(["k", "y0"], g2, g3):
            cx.claim_eq("same gradient from both calls: d/d" + nm, a, b)
    else:
        y = solve_ivp(f, ts, y0, params=(k,), method=fwd_method, myopt=1, other=10,
                      bck_options={"method": bck_method, "myopt": 5})
        nf = len(seen)
        cx.claim_true("forward: the forward callable once, with the forward options",
                      seen == [("fwd_method", {"myopt": 1, "other": 10})], detail=str(seen))
        g = grads((w * y).sum(), [k, y0])
        back = seen[nf:]
        cx.claim_true("backward: only the backward callable, with the forward options overridden by bck_options",
                      len(back) >= 1 and all(nm == "bck_method" and kw == {"myopt": 5, "other": 10} for nm, kw in back),
                      detail=str(back))
        yref = solve_ivp(f, ts, y0, params=(k,), method="rk4")
        gref = grads((w * yref).sum(), [k, y0])
        for nm, a, b in zip(["k", "y0"], g, gref):
            cx.claim_eq("gradient equals the built-in rk4/rk4 one: d/d" + nm, a, b)
    return "ok"


def adaptive_graph(cx, method="rk45"):
    """adaptive methods: the graph-recording backward (incl. the time points) works and agrees with the plain one
    (step acceptance forced: the error norm is replaced by 0.5)"""
    from xitorch._impls.integrate.ivp import adaptive_rk as ark
    solver_cls = {"rk45": ark.RK45, "rk23": ark.RK23}[method]
    a = cx.sym("a", (), requires_grad=True)
    y0 = cx.sym("y0", (1,), requires_grad=True)
    ts = cx.const(torch.tensor([0.25, 0.75, 1.0], dtype=torch.float64)).requires_grad_()
    orig = solver_cls._error_norm
    solver_cls._error_norm = lambda self, K, h: h * 0 + 0.5
    try:
        yt = solve_ivp(lambda t, y, a_: -a_ * y + t, ts, y0, params=(a,), method=method, atol=1.0, rtol=0.0)
        w = cx.sym("w", (3, 1))
        plain = grads((w * yt).sum(), [a, y0, ts])
        rec = grads((w * yt).sum(), [a, y0, ts], create_graph=True)
    finally:
        solver_cls._error_norm = orig
    for nm, x, y in zip(["a", "y0", "ts"], rec, plain):
        cx.claim_eq("create_graph=True: d/d%s equals the plain backward" % nm, x, y)
    return "ok"


def configs(tier):
    cfgs = []

    def add(id_, scenario, opts=None, **params):
        cfgs.append({"id": id_, "scenario": scenario, "params": params, "opts": opts or {}})

    for method, p in (("euler", 1), ("rk4", 4), ("rk38", 4)):
        add("series/%s/forward" % method, series_grad, method=method, p=p, sigma=1)
    add("series/rk4/backward_in_time", series_grad, method="rk4", p=4, sigma=-1)
    add("series/euler/backward_in_time", series_grad, method="euler", p=1, sigma=-1)
    add("adaptive_graph/rk45", adaptive_graph, method="rk45")
    add("adaptive_graph/rk23", adaptive_graph, method="rk23")
    for kind in ("derived", "duplicate", "derived_only"):
        add("param_graph/euler/%s" % kind, param_graph, method="euler", kind=kind)
    add("param_graph/rk4/derived", param_graph, method="rk4", kind="derived")
    add("param_graph/euler/derived/decreasing", param_graph, method="euler", kind="derived", reverse=True)
    add("option_flow/sequence", option_flow, case="sequence")
    add("option_flow/bck_options", option_flow, case="bck_options")
    add("representations/euler/3points", representations, method="euler", npoints=3)
    add("representations/rk4/2points", representations, method="rk4", npoints=2)
    add("representations/euler/3points/decreasing", representations, method="euler", npoints=3, reverse=True)
    if tier == "thorough":
        add("representations/rk4/3points", representations, method="rk4", npoints=3, opts={"budget_s": 1500, "timeout_ms": 60000})
        add("representations/rk38/2points/decreasing", representations, method="rk38", npoints=2, reverse=True,
            opts={"budget_s": 1500, "timeout_ms": 60000})
    return cfgs
