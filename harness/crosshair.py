"""Runs CrossHair (symbolic execution of Python with z3) on a property file and classifies every condition."""
import os
import re
import subprocess
import sys

ROOT = os.path.dirname(os.path.dirname(os.path.abspath(__file__)))


def run_crosshair(relpath, per_condition_timeout=60, total_timeout=600):
    """returns {function_name: 'confirmed' | 'refuted' | 'unknown'} and the raw output"""
    path = os.path.join(ROOT, relpath)
    exe = os.path.join(sys.prefix, "bin", "crosshair")
    env = dict(os.environ)
    env["PYTHONPATH"] = ROOT + os.pathsep + (os.environ.get("VERIF_REPO") or "/repo") + os.pathsep + env.get("PYTHONPATH", "")
    cmd = [exe, "check", "--report_all", "--per_condition_timeout", str(per_condition_timeout), path]
    try:
        p = subprocess.run(cmd, capture_output=True, text=True, timeout=total_timeout, env=env, cwd=ROOT)
        out = p.stdout + p.stderr
    except subprocess.TimeoutExpired as e:
        out = (e.stdout or "") + (e.stderr or "") if isinstance(e.stdout, str) else ""
        out += "\nTIMEOUT"
    src = open(path).read().splitlines()
    # map line numbers to function names
    fn_at = {}
    cur = None
    for i, l in enumerate(src, 1):
        m = re.match(r"def (\w+)\(", l)
        if m:
            cur = m.group(1)
        fn_at[i] = cur
    res = {}
    for line in out.splitlines():
        m = re.match(r".*?:(\d+): (\w+): (.*)", line)
        if not m:
            continue
        ln, kind, msg = int(m.group(1)), m.group(2), m.group(3)
        fn = fn_at.get(ln)
        if fn is None:
            continue
        if "Confirmed over all paths" in msg:
            res[fn] = "confirmed"
        elif kind == "error" or "false when calling" in msg or "raises" in msg.lower():
            res[fn] = "refuted: " + msg[:200]
        elif fn not in res:
            res[fn] = "unknown: " + msg[:120]
    return res, out
