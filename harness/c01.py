"""C01 - solve returns the solution of AX - MXE = B, or warns that it did not."""
import numpy as np
import torch
import xitorch
from xitorch import LinearOperator
from xitorch.linalg import solve

from harness.base import Recorder
from harness.linops import build_operator, nmats

PROPERTY = "C01"
DEFAULT_OPTS = {"validate": 2, "timeout_ms": 10000, "budget_s": 150, "max_paths": 200, "hunt_budget_s": 60}

META = {
    "bounds": "matrix size n<=2 (quick) / n<=3 (thorough), ncols<=2, batch extents <=2, Krylov/Broyden loops "
              "unrolled to the real max_niter/maxiter argument (<=2 quick, <=3 thorough); all tensor entries symbolic reals "
              "(complex: symbolic real/imaginary parts)",
    "outside": "floating-point rounding, float32, n>3, convergence-rate statements, agreement between iterative methods "
               "beyond 'each meets its own stopping test', scipy_gmres (does not run on this toolchain), condition numbers",
    "assumptions": ["det(A - e_j M) != 0 for the direct paths", "M = L L^H with L lower-triangular, positive diagonal (planted Cholesky factor)",
                    "posdef probe (_get_largest_eival power iteration) is exercised only through explicit posdef=True/False"],
}

BATCHES = {
    # name: (A batch, B batch, E batch, M batch)
    "none": ((), (), (), ()),
    "Abatch": ((2,), (), (), ()),          # with n == ncols == 2: the shape coincidence fixed in 3af5c86
    "Bbatch": ((), (2,), (), ()),
    "bcast": ((2,), (1,), (2,), ()),
    "Ebatch": ((), (), (2,), ()),
    "Mbatch": ((), (), (), (2,)),          # only M is batched (more batch dimensions than A, B and E)
    "Mbatch1": ((), (), (), (1,)),
    "A22": ((2, 2), (), (), ()),           # two non-trivial batch dimensions
    "B22": ((), (2, 2), (), ()),
}


def _mk_M(cx, n, bm, complex_):
    """M = L L^H planted"""
    L = cx.sym("l", bm + (n, n), complex_=complex_)
    Lt = torch.tril(L)
    # positive real diagonal
    diag = cx.sym("ld", bm + (n,), positive=True, lo=0.5, hi=2)
    Lt = Lt - torch.diag_embed(torch.diagonal(Lt, dim1=-2, dim2=-1)) + torch.diag_embed(diag).to(Lt.dtype)
    M = torch.matmul(Lt, Lt.transpose(-2, -1).conj())
    cx.plant("cholesky", M, Lt)
    return M, Lt


def _residual(Amat, X, B, E, M):
    R = torch.matmul(Amat, X) - B
    if E is not None:
        MX = torch.matmul(M, X) if M is not None else X
        R = R - MX * E.unsqueeze(-2)
    return R


def direct(cx, n=2, ncols=1, method=None, opkind="dense", withE=False, withM=False, batch="none", complex_=False):
    ba, bb, be, bm = BATCHES[batch]
    mats = [cx.sym("a%d" % i, ba + (n, n), complex_=complex_) for i in range(nmats(opkind))]
    if opkind.startswith("herm"):
        mats = [(mats[0] + mats[0].transpose(-2, -1).conj()) * 0.5]
    B = cx.sym("b", bb + (n, ncols), complex_=complex_)
    E = cx.sym("e", be + (ncols,), complex_=complex_) if withE else None
    M = Mop = None
    if withM:
        M, _ = _mk_M(cx, n, bm, complex_)
        Mop = LinearOperator.m(M, is_hermitian=True)
    A, Amat = build_operator(opkind, mats)
    kw = {} if method is None else {"method": method}
    if not cx.symbolic:
        # seeded concrete inputs: skip (nearly) singular systems, where float64 and exact arithmetic legitimately disagree
        with torch.no_grad():
            Ab = Amat.expand(*torch.broadcast_shapes(ba, be if withE else (), bm if (withE and withM) else ()), n, n)
            for j in range(ncols):
                Kj = Ab if E is None else Ab - E[..., j][..., None, None] * (M if M is not None else torch.eye(n, dtype=Amat.dtype))
                cx.assume(torch.all(torch.linalg.det(Kj).abs() > 1e-3), note="A - e_j M well away from singular on concrete inputs")
    with torch.no_grad():
        X = solve(A, B, E, Mop, **kw)
    bshape = torch.broadcast_shapes(ba, bb, be if withE else (), bm if (withE and withM) else ())
    cx.claim_true("shape", tuple(X.shape) == tuple(bshape) + (n, ncols),
                  detail="got %s expected %s" % (tuple(X.shape), tuple(bshape) + (n, ncols)))
    cx.claim_true("dtype", X.dtype == B.dtype, detail=str(X.dtype))
    if tuple(X.shape) == tuple(bshape) + (n, ncols):
        R = _residual(Amat, X, B, E, M)
        cx.claim_eq("AX-MXE=B", R, torch.zeros_like(R))
    return "solved"


def krylov(cx, method="cg", n=2, ncols=1, withE=False, withM=False, posdef=True, max_niter=2, opkind="spd",
           batch="none", rtol=1e-3, atol=1e-4):
    ba, bb, be, bm = BATCHES[batch]
    if opkind == "spd":
        # A = G G^T + I-ish positive definite, built from a lower-triangular factor with positive diagonal
        G = torch.tril(cx.sym("g", ba + (n, n)))
        gd = cx.sym("gd", ba + (n,), positive=True, lo=0.5, hi=2)
        G = G - torch.diag_embed(torch.diagonal(G, dim1=-2, dim2=-1)) + torch.diag_embed(gd)
        Amat = torch.matmul(G, G.transpose(-2, -1))
        A = LinearOperator.m(Amat, is_hermitian=True)
    elif opkind == "diag":
        gd = cx.sym("gd", ba + (n,), positive=True, lo=0.5, hi=2)
        Amat = torch.diag_embed(gd)
        A = LinearOperator.m(Amat, is_hermitian=True)
    elif opkind == "scalar":
        # A = g*I: every Krylov method converges in one iteration for every right-hand side and shift
        g = cx.sym("g", ba + (1,), positive=True, lo=0.5, hi=2)
        Amat = torch.diag_embed(g.expand(*ba, n))
        A = LinearOperator.m(Amat, is_hermitian=True)
    elif opkind.startswith("fixed_nonsym"):
        # a fixed non-normal matrix (the right-hand side stays symbolic): full convergence in n iterations is reachable
        fam = {"fixed_nonsym0": [[2.0, 1.0], [-0.5, 1.5]], "fixed_nonsym1": [[1.0, 2.0], [0.25, -1.5]],
               "fixed_nonsym2": [[0.5, -1.0], [2.0, 1.0]]}[opkind]
        Amat = cx.const(torch.tensor(fam, dtype=torch.float64))
        A = LinearOperator.m(Amat, is_hermitian=False)
    elif opkind == "sym":
        a = cx.sym("a0", ba + (n, n))
        Amat = (a + a.transpose(-2, -1)) * 0.5
        A = LinearOperator.m(Amat, is_hermitian=True)
    else:
        mats = [cx.sym("a%d" % i, ba + (n, n)) for i in range(nmats(opkind))]
        A, Amat = build_operator(opkind, mats)
    B = cx.sym("b", bb + (n, ncols))
    E = cx.sym("e", be + (ncols,)) if withE else None
    M = Mop = None
    if withM and opkind == "scalar":
        # M = m*I per batch element: A - e_j M stays a multiple of the identity, one iteration converges for every shift
        mm_ = cx.sym("m", bm + (1,), positive=True, lo=0.5, hi=2)
        M = torch.diag_embed(mm_.expand(*bm, n))
        Mop = LinearOperator.m(M, is_hermitian=True)
    elif withM:
        M, _ = _mk_M(cx, n, bm, False)
        Mop = LinearOperator.m(M, is_hermitian=True)
    opts = dict(max_niter=max_niter, rtol=rtol, atol=atol)
    if method in ("cg", "bicgstab", "gmres"):
        opts["posdef"] = posdef
    with Recorder(xitorch.ConvergenceWarning) as rec, torch.no_grad():
        X = solve(A, B, E, Mop, method=method, **opts)
    bshape = torch.broadcast_shapes(ba, bb, be if withE else (), bm if (withE and withM) else ())
    cx.claim_true("shape", tuple(X.shape) == tuple(bshape) + (n, ncols),
                  detail="got %s expected %s" % (tuple(X.shape), tuple(bshape) + (n, ncols)))
    if rec.warned:
        return "warned"
    # the system the method itself set up: original, or the normal equations when not (declared) positive definite
    hermit = A.is_hermitian
    use_normal = (not posdef) or (method == "cg" and not hermit)
    R = -_residual(Amat, X, B, E, M)          # B - (A X - M X E)
    Bn = B
    if use_normal:
        def AT(Y):
            r = torch.matmul(Amat.transpose(-2, -1), Y)
            if E is not None:
                MY = torch.matmul(M.transpose(-2, -1), Y) if M is not None else Y
                r = r - MY * E.unsqueeze(-2)
            return r
        R = AT(R)
        Bn = AT(B.expand(*bshape, n, ncols) if B.ndim < len(bshape) + 2 else B)
    rn = R.norm(dim=-2, keepdim=True)
    bn = Bn.norm(dim=-2, keepdim=True)
    stop = torch.max(rtol * bn, atol * torch.ones_like(bn))
    ok = torch.all(rn < stop)
    # documented shortcut: an (almost) all-zero right-hand side returns zeros
    shortcut = torch.all(B.abs() <= atol) & torch.all(X == 0)
    cx.claim("silent=>residual<stop", ok | shortcut)
    return "silent"


def broyden(cx, n=2, ncols=1, maxiter=2, withE=False, f_tol=1e-3, x_tol=1e-1, alpha=None):
    Amat = cx.sym("a0", (n, n))
    A = LinearOperator.m(Amat, is_hermitian=False)
    B = cx.sym("b", (n, ncols))
    E = cx.sym("e", (ncols,)) if withE else None
    for j in range(ncols):
        K = Amat if E is None else Amat - E[j] * torch.eye(n, dtype=Amat.dtype)
        cx.assume(torch.linalg.det(K) != 0, note="A - e_j I nonsingular (a unique solution exists)")
    opts = dict(maxiter=maxiter, f_tol=f_tol, x_tol=x_tol, line_search=False)
    if alpha is not None:
        opts["alpha"] = alpha
    with Recorder(xitorch.ConvergenceWarning) as rec, torch.no_grad():
        X = solve(A, B, E, None, method="broyden1", **opts)
    cx.claim_true("shape", tuple(X.shape) == (n, ncols))
    if rec.warned:
        return "warned"
    R = _residual(Amat, X, B, E, None)
    rn = R.reshape(-1).norm()
    cx.claim("silent=>|AX-MXE-B|<f_tol", (rn < f_tol) | torch.all(B == 0))
    return "silent"


def configs(tier):
    cfgs = []

    def add(id_, scenario, opts=None, **params):
        cfgs.append({"id": id_, "scenario": scenario, "params": params, "opts": opts or {}})

    # ---- direct paths
    for method in (None, "exactsolve", "custom_exactsolve"):
        mname = method or "default"
        for em in ("A", "AE", "AEM"):
            add("direct/%s/dense/%s/n2c1" % (mname, em), direct, n=2, ncols=1, method=method, opkind="dense",
                withE=em != "A", withM=em == "AEM")
    for opkind in ("mvonly", "mvrmv", "mvmm", "all", "herm", "herm_mv", "add", "sub", "mul", "rmul", "matmul", "adjoint",
                   "add_dense", "dense_auto"):
        add("direct/default/%s/AE/n2c2" % opkind, direct, n=2, ncols=2, method=None, opkind=opkind, withE=True)
        add("direct/custom_exactsolve/%s/A/n2c1" % opkind, direct, n=2, ncols=1, method="custom_exactsolve", opkind=opkind)
    for batch in ("Abatch", "Bbatch", "bcast", "Ebatch"):
        for method in ("exactsolve", "custom_exactsolve"):
            wE = batch in ("bcast", "Ebatch")
            add("direct/%s/dense/%s/%s/n2c2" % (method, "AE" if wE else "A", batch), direct, n=2, ncols=2, method=method,
                opkind="dense", withE=wE, batch=batch)
    add("direct/exactsolve/dense/AEM/Bbatch/n2c2", direct, n=2, ncols=2, method="exactsolve", opkind="dense",
        withE=True, withM=True, batch="Bbatch")
    add("direct/exactsolve/dense/AEM/complex/n2c1", direct, n=2, ncols=1, method="exactsolve", opkind="dense",
        withE=True, withM=True, complex_=True)
    add("direct/custom_exactsolve/mvrmv/AE/complex/n2c1", direct, n=2, ncols=1, method="custom_exactsolve", opkind="mvrmv",
        withE=True, complex_=True)
    # ---- Krylov control claims
    for method, it in (("cg", 2), ("bicgstab", 1), ("gmres", 2)):
        add("krylov/%s/spd/posdef/A/it%d" % (method, it), krylov, method=method, n=2, ncols=1, posdef=True, max_niter=it,
            opkind="spd")
        add("krylov/%s/spd/posdef/AE/it1" % method, krylov, method=method, n=2, ncols=2 if method != "bicgstab" else 1,
            posdef=True, max_niter=1, opkind="spd", withE=True)
    for method in ("cg", "bicgstab", "gmres"):
        # several columns without E: the stopping test is per column
        add("krylov/%s/diag/posdef/A/c2/it1" % method, krylov, method=method, n=2, ncols=2, posdef=True, max_niter=1, opkind="diag",
            opts={"hunt_always": True})
    # batched shifts with several columns (layout of E in the set-up shared by the Krylov methods; gmres with E and 2 columns is
    # the known finding, bicgstab is in the thorough tier)
    # E and M with M alone batched (batch size == / != number of columns, and a size-1 batch)
    add("krylov/cg/scalar/posdef/AEM/Mbatch/c2/it1", krylov, method="cg", n=2, ncols=2, posdef=True, max_niter=1,
        opkind="scalar", withE=True, withM=True, batch="Mbatch")
    add("krylov/cg/scalar/posdef/AEM/Mbatch/c1/it1", krylov, method="cg", n=2, ncols=1, posdef=True, max_niter=1,
        opkind="scalar", withE=True, withM=True, batch="Mbatch")
    add("krylov/cg/scalar/posdef/AEM/Mbatch1/c2/it1", krylov, method="cg", n=2, ncols=2, posdef=True, max_niter=1,
        opkind="scalar", withE=True, withM=True, batch="Mbatch1")
    add("krylov/cg/scalar/posdef/AE/Ebatch/c2/it1", krylov, method="cg", n=2, ncols=2, posdef=True, max_niter=1,
        opkind="scalar", withE=True, batch="Ebatch")
    if tier == "thorough":
        add("krylov/bicgstab/scalar/posdef/AE/Ebatch/c2/it1", krylov, method="bicgstab", n=2, ncols=2, posdef=True, max_niter=1,
            opkind="scalar", withE=True, batch="Ebatch", opts={"budget_s": 1200, "max_paths": 400})
    # two non-trivial batch dimensions (gmres flattens the batch of its Hessenberg matrix: known finding C01-gmres-batch2)
    for method in ("cg", "bicgstab", "gmres"):
        add("krylov/%s/scalar/posdef/A/A22/it1" % method, krylov, method=method, n=2, ncols=1, posdef=True, max_niter=1,
            opkind="scalar", batch="A22")
        if method != "bicgstab" or tier == "thorough":
            add("krylov/%s/scalar/posdef/A/B22/it1" % method, krylov, method=method, n=2, ncols=1, posdef=True, max_niter=1,
                opkind="scalar", batch="B22", opts={"budget_s": 600} if method == "bicgstab" else None)
    # normal equations on a fixed non-normal matrix, enough iterations for exact convergence
    for method in ("cg", "gmres"):
        add("krylov/%s/fixed_nonsym0/normal/A/it2" % method, krylov, method=method, n=2, ncols=1, posdef=False, max_niter=2,
            opkind="fixed_nonsym0")
    add("krylov/cg/fixed_nonsym2/normal/A/it2", krylov, method="cg", n=2, ncols=1, posdef=False, max_niter=2, opkind="fixed_nonsym2")
    add("krylov/cg/sym/normal/A/it1", krylov, method="cg", n=2, ncols=1, posdef=False, max_niter=1, opkind="sym")
    add("krylov/gmres/mvrmv/normal/A/it1", krylov, method="gmres", n=2, ncols=1, posdef=False, max_niter=1, opkind="mvrmv")
    add("krylov/cg/mvrmv/nonhermitian/A/it1", krylov, method="cg", n=2, ncols=1, posdef=True, max_niter=1, opkind="mvrmv")
    add("krylov/cg/spd/posdef/AEM/it1", krylov, method="cg", n=2, ncols=1, posdef=True, max_niter=1, opkind="spd",
        withE=True, withM=True)
    # ---- Broyden through the root finder
    add("broyden1/A/n2/it1", broyden, n=2, ncols=1, maxiter=1, alpha=-0.5)
    add("broyden1/A/n1/it2", broyden, n=1, ncols=1, maxiter=2, alpha=-0.5)
    add("broyden1/AE/n1/it2", broyden, n=1, ncols=1, maxiter=2, withE=True, alpha=-1.0)
    if tier == "thorough":
        for method in (None, "custom_exactsolve"):
            mname = method or "default"
            add("direct/%s/dense/AEM/n3c2" % mname, direct, n=3, ncols=2, method=method, opkind="dense", withE=True, withM=True,
                opts={"budget_s": 1500})
            add("direct/%s/matmul/AE/n3c1" % mname, direct, n=3, ncols=1, method=method, opkind="matmul", withE=True,
                opts={"budget_s": 1500})
        for method in ("cg", "bicgstab", "gmres"):
            add("krylov/%s/spd/posdef/A/it3" % method, krylov, method=method, n=2, ncols=1, posdef=True, max_niter=3,
                opkind="spd", opts={"budget_s": 1500, "max_paths": 600})
            add("krylov/%s/spd/posdef/A/n3it2" % method, krylov, method=method, n=3, ncols=1, posdef=True, max_niter=2,
                opkind="spd", opts={"budget_s": 1500, "max_paths": 600})
            add("krylov/%s/mvrmv/normal/A/it1b" % method, krylov, method=method, n=2, ncols=1, posdef=False, max_niter=1,
                opkind="mvrmv", opts={"budget_s": 1500, "max_paths": 600})
        add("broyden1/A/n1/it3", broyden, n=1, ncols=1, maxiter=3, alpha=-0.5, opts={"budget_s": 1500, "max_paths": 600})
        add("broyden1/A/n2/it2", broyden, n=2, ncols=1, maxiter=2, alpha=-0.5, opts={"budget_s": 1500, "max_paths": 600})
        add("krylov/bicgstab/spd/posdef/AE/n2c2/it1", krylov, method="bicgstab", n=2, ncols=2, posdef=True, max_niter=1,
            opkind="spd", withE=True, opts={"budget_s": 1500, "max_paths": 600})
    return cfgs
