"""C15 - SQuad integrates the interpolant of the samples exactly."""
from fractions import Fraction

import numpy as np
import torch
import xitorch
from xitorch.integrate import SQuad
from xitorch.interpolate import Interp1D

from harness.c14 import GRIDS

PROPERTY = "C15"
DEFAULT_OPTS = {"validate": 2, "timeout_ms": 15000, "budget_s": 300, "max_paths": 40}

META = {
    "bounds": "2 to 5 sample points (6 in the thorough tier) on fixed non-uniform rational grids, symbolic samples y of shapes (nx,), "
              "(2,nx), (nx,2) with dim/keepdim; trapz against the chord sums, cspline against the exact integral of the C14 "
              "interpolant with the same boundary condition (Simpson's rule on each cubic piece, evaluated through the real Interp1D), "
              "simpson against the exactly integrated Lagrange parabolas (rational arithmetic), including the odd last interval",
    "outside": "symbolic sample positions, dozens of points, rounding",
    "assumptions": ["Simpson's 3-point rule is exact on cubics (used to integrate the spline pieces without a second formula)"],
}

GR = dict(GRIDS)
GR[6] = [[-1.0, -0.5, 0.25, 1.0, 1.5, 3.0]]
GR[5] = GR[5] + [[0.0, 0.25, 1.0, 1.75, 2.0]]


def _grid(cx, n, g):
    return cx.const(torch.tensor(GR[n][g], dtype=torch.float64)), [Fraction(v) for v in GR[n][g]]


def _parabola_weights(xs, lo, hi):
    """exact integral over [lo, hi] of the three Lagrange basis parabolas on the nodes xs (rational arithmetic)"""
    ws = []
    for k in range(3):
        others = [xs[m] for m in range(3) if m != k]
        den = (xs[k] - others[0]) * (xs[k] - others[1])
        # (x-a)(x-b) = x^2 - (a+b)x + ab
        a, b = others

        def F(x):
            return x ** 3 / 3 - (a + b) * x ** 2 / 2 + a * b * x
        ws.append((F(hi) - F(lo)) / den)
    return ws


def _textbook_spline_cumsum(xf, y, bc):
    """running integral of the cubic spline from the textbook slope equations (continuity of S'' at the knots plus the
    natural / periodic end conditions), assembled and inverted here in exact rational arithmetic; independent of
    xitorch's spline matrix"""
    n = len(xf)
    h = [xf[i + 1] - xf[i] for i in range(n - 1)]
    A = [[Fraction(0)] * n for _ in range(n)]
    R = [[Fraction(0)] * n for _ in range(n)]       # right-hand side = R @ y
    def interior(row, im, i, ip, hl, hr):
        A[row][im] += 1 / hl
        A[row][i] += 2 * (1 / hl + 1 / hr)
        A[row][ip] += 1 / hr
        R[row][i] += 3 / hl ** 2
        R[row][im] += -3 / hl ** 2
        R[row][ip] += 3 / hr ** 2
        R[row][i] += -3 / hr ** 2
    for i in range(1, n - 1):
        interior(i, i - 1, i, i + 1, h[i - 1], h[i])
    if bc == "natural":
        A[0][0], A[0][1] = 2 / h[0], 1 / h[0]
        R[0][1], R[0][0] = 3 / h[0] ** 2, -3 / h[0] ** 2
        A[n - 1][n - 1], A[n - 1][n - 2] = 2 / h[-1], 1 / h[-1]
        R[n - 1][n - 1], R[n - 1][n - 2] = 3 / h[-1] ** 2, -3 / h[-1] ** 2
    elif bc == "periodic":
        # unknown k_{n-1} = k_0: row n-1 states that, row 0 is the interior equation at the wrap knot
        A[n - 1][n - 1], A[n - 1][0] = Fraction(1), Fraction(-1)
        A[0][n - 2] += 1 / h[-1]
        A[0][0] += 2 * (1 / h[-1] + 1 / h[0])
        A[0][1] += 1 / h[0]
        R[0][0] += 3 / h[-1] ** 2 - 3 / h[0] ** 2
        R[0][n - 2] += -3 / h[-1] ** 2
        R[0][1] += 3 / h[0] ** 2
    else:
        raise KeyError(bc)
    # Gauss-Jordan inverse in Fractions
    M = [row[:] + [Fraction(int(i == j)) for j in range(n)] for i, row in enumerate(A)]
    for c in range(n):
        p = next(r for r in range(c, n) if M[r][c] != 0)
        M[c], M[p] = M[p], M[c]
        pv = M[c][c]
        M[c] = [v / pv for v in M[c]]
        for r in range(n):
            if r != c and M[r][c] != 0:
                f = M[r][c]
                M[r] = [a - f * b for a, b in zip(M[r], M[c])]
    Ainv = [row[n:] for row in M]
    W = [[sum(Ainv[i][m] * R[m][j] for m in range(n)) for j in range(n)] for i in range(n)]   # slopes = W @ y
    ks = [sum(float(W[i][j]) * y[..., j] for j in range(n)) for i in range(n)]
    out = [torch.zeros_like(y[..., 0])]
    for j in range(n - 1):
        out.append(out[-1] + (y[..., j] + y[..., j + 1]) * float(h[j] / 2) + (ks[j] - ks[j + 1]) * float(h[j] ** 2 / 12))
    return torch.stack(out, dim=-1)


def squad(cx, n=4, g=0, method="trapz", bc="natural", yshape="vec"):
    x, xf = _grid(cx, n, g)
    if yshape == "vec":
        shape, dim = (n,), -1
    elif yshape == "rows":
        shape, dim = (2, n), -1
    elif yshape == "cols":
        shape, dim = (n, 2), 0
    else:
        # explicit (shape, dim): the sample dimension has length n, any position, positive or negative index
        shape, dim = yshape
        shape = tuple(n if e == "n" else e for e in shape)
    y = cx.sym("y", shape)
    d = dim % len(shape)
    yl = y.movedim(d, -1)       # yl: (..., nx)
    kw = {"bc_type": bc} if method in ("cspline", None) else {}
    with torch.no_grad():
        sq = SQuad(x, method=method, **kw) if method is not None else SQuad(x, **kw)
        method = method or "cspline"        # the documented default
        cs = sq.cumsum(y, dim=dim)
        tot = sq.integrate(y, dim=dim)
        totk = sq.integrate(y, dim=dim, keepdim=True)
        cx.claim_true("cumsum has the shape of y", tuple(cs.shape) == tuple(y.shape))
        csl = cs.movedim(d, -1) if tuple(cs.shape) == tuple(y.shape) else cs
        cx.claim_true("integrate drops the sample dimension", tuple(tot.shape) == tuple(shape[:d]) + tuple(shape[d + 1:]),
                      detail=str(tuple(tot.shape)))
        cx.claim_eq("cumsum starts at zero", csl[..., 0], torch.zeros_like(csl[..., 0]))
        if tuple(tot.shape) == tuple(csl.shape[:-1]):
            cx.claim_eq("last cumsum entry = integrate", csl[..., -1], tot)
        cx.claim_true("keepdim keeps a singleton dimension", tuple(totk.shape) == tuple(shape[:d]) + (1,) + tuple(shape[d + 1:]),
                      detail=str(tuple(totk.shape)))
        if tuple(totk.shape) == tuple(shape[:d]) + (1,) + tuple(shape[d + 1:]) and tuple(tot.shape) == tuple(shape[:d]) + tuple(shape[d + 1:]):
            cx.claim_eq("keepdim value", totk.squeeze(d), tot)
        # reference running integral
        ref = [torch.zeros_like(yl[..., 0])]
        if method == "trapz":
            for j in range(n - 1):
                ref.append(ref[-1] + (yl[..., j] + yl[..., j + 1]) * float((xf[j + 1] - xf[j]) / 2))
        elif method == "cspline":
            if bc == "periodic":
                return "skipped"      # handled by squad_periodic
            itp = Interp1D(x, method="cspline", bc_type=bc, assume_sorted=True)
            mids = cx.const(torch.tensor([float((xf[j] + xf[j + 1]) / 2) for j in range(n - 1)], dtype=torch.float64))
            smid = itp(mids, yl)
            for j in range(n - 1):
                h = float(xf[j + 1] - xf[j])
                ref.append(ref[-1] + (yl[..., j] + 4 * smid[..., j] + yl[..., j + 1]) * (h / 6))
        else:  # simpson: parabolas through consecutive triples; the odd last interval uses the last triple
            for i in range(1, n):
                if i % 2 == 0:
                    w = _parabola_weights(xf[i - 2:i + 1], xf[i - 2], xf[i])
                    ref.append(ref[i - 2] + sum(float(w[k]) * yl[..., i - 2 + k] for k in range(3)))
                elif i == 1:
                    ref.append(ref[0] + (yl[..., 0] + yl[..., 1]) * float((xf[1] - xf[0]) / 2))
                else:
                    w = _parabola_weights(xf[i - 2:i + 1], xf[i - 1], xf[i])
                    ref.append(None)      # filled below from the previous even entry
                    ref[i] = ("odd", i, w)
            # resolve odd entries: previous even cumulative value + integral of the last triple's parabola over the last interval
            for i in range(len(ref)):
                if isinstance(ref[i], tuple):
                    _, ii, w = ref[i]
                    ref[i] = ref[ii - 1] + sum(float(w[k]) * yl[..., ii - 2 + k] for k in range(3))
        refl = torch.stack(ref, dim=-1)
        cx.claim_eq("running integral of the interpolant", csl, refl)
        if method == "cspline" and bc == "natural":
            cx.claim_eq("running integral of the textbook natural spline", csl, _textbook_spline_cumsum(xf, yl, "natural"))
        # linearity in y
        y2 = cx.sym("y2", tuple(y.shape))
        s = cx.sym("s", ())
        cx.claim_eq("linear in y", sq.cumsum(y * s + y2, dim=dim), cs * s + sq.cumsum(y2, dim=dim))

        def raises(f):
            try:
                f()
            except RuntimeError:
                return True
            return False
        bad = cx.sym("bad", (n + 1,))
        cx.claim_true("wrong length rejected (cumsum)", raises(lambda: sq.cumsum(bad)))
        cx.claim_true("wrong length rejected (integrate)", raises(lambda: sq.integrate(bad)))
    return "ok"


def squad_periodic(cx, n=3, g=0, yshape="vec"):
    """cspline with the periodic boundary condition (y[-1] the same symbol as y[0])"""
    x, xf = _grid(cx, n, g)
    yfree = cx.sym("y", (n - 1,))
    y = torch.cat([yfree, yfree[:1]])
    with torch.no_grad():
        sq = SQuad(x, method="cspline", bc_type="periodic")
        cs = sq.cumsum(y)
        itp = Interp1D(x, method="cspline", bc_type="periodic", assume_sorted=True)
        mids = cx.const(torch.tensor([float((xf[j] + xf[j + 1]) / 2) for j in range(n - 1)], dtype=torch.float64))
        smid = itp(mids, y)
        ref = [torch.zeros_like(y[0])]
        for j in range(n - 1):
            h = float(xf[j + 1] - xf[j])
            ref.append(ref[-1] + (y[j] + 4 * smid[j] + y[j + 1]) * (h / 6))
        cx.claim_eq("running integral of the periodic spline", cs, torch.stack(ref))
        cx.claim_eq("running integral of the textbook periodic spline", cs, _textbook_spline_cumsum(xf, y, "periodic"))
        cx.claim_eq("last cumsum entry = integrate", cs[-1], sq.integrate(y))
    return "ok"


def configs(tier):
    cfgs = []

    def add(id_, scenario, opts=None, **params):
        cfgs.append({"id": id_, "scenario": scenario, "params": params, "opts": opts or {}})

    for n, g in ((2, 0), (3, 0), (4, 1), (5, 0)):
        add("trapz/n%d/grid%d/vec" % (n, g), squad, n=n, g=g, method="trapz")
    add("trapz/n4/grid0/rows", squad, n=4, g=0, method="trapz", yshape="rows")
    add("trapz/n3/grid2/cols", squad, n=3, g=2, method="trapz", yshape="cols")
    for n, g in ((3, 0), (3, 2), (4, 0), (5, 1)):
        add("simpson/n%d/grid%d/vec" % (n, g), squad, n=n, g=g, method="simpson")
    add("simpson/n4/grid1/cols", squad, n=4, g=1, method="simpson", yshape="cols")
    # size-1 batch dimensions in inner positions, negative dims other than -1
    for method in ("trapz", "simpson", "cspline"):
        add("%s/n3/grid0/shape(2,1,n)" % method, squad, n=3, g=0, method=method, yshape=((2, 1, "n"), -1))
        add("%s/n3/grid0/shape(2,n,1)/dim1" % method, squad, n=3, g=0, method=method, yshape=((2, "n", 1), 1))
        add("%s/n3/grid0/shape(2,n,1)/dim-2" % method, squad, n=3, g=0, method=method, yshape=((2, "n", 1), -2))
    add("trapz/n3/grid0/shape(n,2,1)/dim-3", squad, n=3, g=0, method="trapz", yshape=(("n", 2, 1), -3))
    # four-dimensional samples, sample dimension first / second
    add("trapz/n2/grid0/shape(n,2,1,2)/dim0", squad, n=2, g=0, method="trapz", yshape=(("n", 2, 1, 2), 0))
    add("simpson/n3/grid0/shape(2,n,1,2)/dim1", squad, n=3, g=0, method="simpson", yshape=((2, "n", 1, 2), 1))
    add("cspline/n3/grid0/shape(n,1,2,2)/dim-4", squad, n=3, g=0, method="cspline", yshape=(("n", 1, 2, 2), -4))
    # the documented default method (cspline) with a requested boundary condition
    for bc in ("clamped", "not-a-knot"):
        add("default_method/%s/n4/grid1/vec" % bc, squad, n=4, g=1, method=None, bc=bc)
    for bc in ("natural", "clamped", "not-a-knot"):
        add("cspline/%s/n4/grid0/vec" % bc, squad, n=4, g=0, method="cspline", bc=bc)
    add("cspline/natural/n3/grid2/rows", squad, n=3, g=2, method="cspline", bc="natural", yshape="rows")
    add("cspline/clamped/n5/grid0/cols", squad, n=5, g=0, method="cspline", bc="clamped", yshape="cols")
    for n, g in ((3, 0), (3, 2), (4, 1)):
        add("cspline/periodic/n%d/grid%d" % (n, g), squad_periodic, n=n, g=g)
    if tier == "thorough":
        add("simpson/n6/grid0/vec", squad, n=6, g=0, method="simpson")
        add("cspline/not-a-knot/n6/grid0/rows", squad, n=6, g=0, method="cspline", bc="not-a-knot", yshape="rows")
        add("cspline/periodic/n5/grid1", squad_periodic, n=5, g=1)
    return cfgs
