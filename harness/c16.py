"""C16 - mcquad returns the weighted sample mean it documents, with its gradient."""
import torch
import xitorch
from xitorch.integrate import mcquad

from harness.paramgraph import param_graph_claims
from harness.base import grads, zero_if_none

PROPERTY = "C16"
DEFAULT_OPTS = {"validate": 2, "timeout_ms": 15000, "budget_s": 240, "max_paths": 60}

META = {
    "bounds": "mhcustom with a caller-supplied deterministic step x -> s*x + delta (s, delta symbolic) and nsamples<=4, "
              "nburnout<=3; mh with torch.rand/randn replaced by arbitrary symbolic values and 2 samples (every accept/reject path "
              "explored); polynomial f(x, theta_f) and log p(x, theta_p) with symbolic parameters (exp left uninterpreted is not "
              "needed: log p only enters through its gradient and the accept test); scalar, tensor and tuple outputs; first and second order",
    "outside": "statistical accuracy of mh, the deterministic 1-D quadrature sampler's accuracy, large sample counts, rounding",
    "assumptions": ["randomness = arbitrary values of the right type (fresh symbols)",
                    "burn-in length is checked up to the convention 'first sample = state after nburnout-1..nburnout+1 steps' "
                    "(mh and mhcustom differ by one step in the shipped code)"],
}


def _f(x, a, b):
    return a * a * x * x + a * b * x


def _logp(x, c):
    return (-c * x * x).sum()


def custom(cx, nsamples=3, nburnout=2, out="tensor", second=False, unused=True, buffered=False):
    s = cx.scalar("s")
    delta = cx.scalar("delta")
    x0 = cx.sym("x0", (1,))
    a = cx.sym("a", (), requires_grad=True)
    b = cx.sym("b", (), requires_grad=True)
    c = cx.sym("c", (), requires_grad=True)
    u = cx.sym("u", (), requires_grad=True)     # enters neither f nor log p
    visited = []

    buf = []

    def step(x, *pparams):
        xn = x * s + delta
        if buffered:
            # a stepper that writes into its own pre-allocated buffer and returns that same tensor object every time
            if not buf:
                buf.append(torch.zeros_like(xn))
            buf[0].copy_(xn)
            visited.append(xn)
            return buf[0]
        visited.append(xn)
        return xn
    if out == "tuple":
        ffcn = lambda x, a_, b_, u_: (_f(x, a_, b_), (b_ * x).sum())
    else:
        ffcn = lambda x, a_, b_, u_: _f(x, a_, b_)
    res = mcquad(ffcn, lambda x, c_, u_: _logp(x, c_), x0, fparams=(a, b, u), pparams=(c, u), method="mhcustom",
                 nsamples=nsamples, nburnout=nburnout, custom_step=step)
    # the chain of states: x0, step(x0), step(step(x0)), ...
    chain = [x0]
    for _ in range(nsamples + nburnout + 2):
        chain.append(chain[-1] * s + delta)
    y = res[0] if out == "tuple" else res
    # exactly nsamples consecutive states, starting after the burn-in
    expected = {}
    for k0 in (nburnout - 1, nburnout, nburnout + 1):
        if k0 < 0:
            continue
        smp = chain[k0:k0 + nsamples]
        expected[k0] = sum(_f(x, a, b) for x in smp) / nsamples
    # decide which start offset the implementation uses from the number of step calls (concrete control flow)
    nsteps = len(visited)
    cx.note("custom_step was called %d times" % nsteps)
    k0 = nburnout - 1 if nburnout >= 1 else 0
    cx.claim_true("number of custom_step calls = (nburnout-1) + (nsamples-1)", nsteps == max(nburnout - 1, 0) + (nsamples - 1),
                  detail="%d calls" % nsteps)
    cx.claim_eq("value = mean of f over nsamples consecutive states after the burn-in", y, expected[k0])
    if out == "tuple":
        smp = chain[k0:k0 + nsamples]
        cx.claim_eq("tuple component 1 averaged component-wise", res[1], sum((b * x).sum() for x in smp) / nsamples)
    # constant integrand returns the constant (weights sum to one)
    const = mcquad(lambda x, a_: a_ * torch.ones_like(x), lambda x, c_: _logp(x, c_), x0, fparams=(a,), pparams=(c,),
                   method="mhcustom", nsamples=nsamples, nburnout=nburnout, custom_step=step)
    cx.claim_eq("constant integrand returns the constant", const, a * torch.ones_like(x0))
    # gradients: d/dtheta_f = mean df ; d/dtheta_p = mean[(f - Ef) dlogp/dtheta_p]
    g = cx.sym("g", (1,))
    got = grads((g * y).sum(), [a, b, c, u], create_graph=second)
    smp = [x.detach() for x in chain[k0:k0 + nsamples]]
    fs = [_f(x, a, b) for x in smp]
    mean = sum(fs) / nsamples
    exp_ab = grads((g * mean).sum(), [a, b], create_graph=second)
    lps = [_logp(x, c) for x in smp]
    score = sum(((g * (fx - mean.detach())).sum().detach() if not second else (g * (fx - mean)).sum()) * lp
                for fx, lp in zip(fs, lps)) / nsamples
    cx.claim_eq("d/da = mean df/da", got[0], exp_ab[0])
    cx.claim_eq("d/db = mean df/db", got[1], exp_ab[1])
    if not second:
        exp_c, = grads(score, [c])
        cx.claim_eq("d/dc = mean (f-Ef) dlogp/dc", got[2], exp_c)
    cx.claim_eq("tensor entering neither f nor log p: zero or absent gradient", got[3],
                None if got[3] is None else torch.zeros_like(u))
    if second:
        ga = zero_if_none(got[:2], [a, b])
        h1 = grads(0.5 * ga[0] - 1.25 * ga[1], [a, b])
        h2 = grads(0.5 * exp_ab[0] - 1.25 * exp_ab[1], [a, b])
        cx.claim_eq("d2/da", h1[0], h2[0])
        cx.claim_eq("d2/db", h1[1], h2[1])
    return "ok"


def mh_two(cx, nsamples=2, nburnout=1):
    """mh with symbolic 'random' numbers: every sample is the previous state or the proposal, weights 1/nsamples"""
    torch.manual_seed(1234)
    x0 = cx.sym("x0", (1,))
    a = cx.sym("a", (), requires_grad=True)
    b = cx.sym("b", (), requires_grad=True)
    c = cx.sym("c", (), positive=True)
    seen = []

    def ffcn(x, a_, b_):
        seen.append(x)
        return _f(x, a_, b_)
    logp_calls = []

    def logp(x, c_):
        logp_calls.append(x)
        return _logp(x, c_)
    with torch.no_grad():
        y = mcquad(ffcn, logp, x0, fparams=(a, b), pparams=(c,), method="mh", nsamples=nsamples, nburnout=nburnout, step_size=0.5)
    pts = seen[1:]          # the first call is mcquad's probing call at x0
    cx.claim_true("exactly nsamples evaluation points", len(pts) == nsamples, detail=str(len(pts)))
    if len(pts) == nsamples:
        cx.claim_eq("value = plain mean over the samples", y, sum(_f(x, a, b) for x in pts) / nsamples)
        # every sample is a point at which log p was evaluated (the previous state or an accepted proposal)
        for i, x in enumerate(pts):
            ok = False
            for z in logp_calls:
                if bool(torch.all(x == z)):
                    ok = True
                    break
            cx.claim_true("sample %d is a visited state" % i, ok)
    return "ok"


def param_graph(cx, kind="derived", where="f", nsamples=2, nburnout=1):
    """parameters of f / log p that are functions of each other or the same tensor passed twice (mhcustom, deterministic step)"""
    s = cx.scalar("s")
    delta = cx.scalar("delta")
    x0 = cx.sym("x0", (1,))
    k = cx.sym("k", (), requires_grad=True)
    c = cx.sym("c", (), requires_grad=True)
    g = cx.sym("g", (1,))

    def step(x, *pparams):
        return x * s + delta
    if where == "f":
        call = lambda a, b: (g * mcquad(lambda x, a_, b_: a_ * b_ * x * x + a_ * x, lambda x, c_: _logp(x, c_), x0,
                                        fparams=(a, b), pparams=(c,), method="mhcustom", nsamples=nsamples,
                                        nburnout=nburnout, custom_step=step)).sum()
    else:
        call = lambda a, b: (g * mcquad(lambda x, c_: c_ * x * x, lambda x, a_, b_: -(a_ * b_ * x * x).sum() + (a_ * x).sum(), x0,
                                        fparams=(c,), pparams=(a, b), method="mhcustom", nsamples=nsamples,
                                        nburnout=nburnout, custom_step=step)).sum()
    param_graph_claims(cx, call, k, kind, others=[c])
    return "ok"


class FTuple(torch.nn.Module):
    def __init__(self, a):
        super().__init__()
        self.a = torch.nn.Parameter(a)

    def forward(self, x, b):
        return (_f(x, self.a, b), (b * x).sum() * self.a)


def tuple_module(cx, nsamples=2, nburnout=1):
    """tuple-valued f given as a method of a module that holds a differentiable tensor (mhcustom, deterministic step)"""
    s = cx.scalar("s")
    delta = cx.scalar("delta")
    x0 = cx.sym("x0", (1,))
    a0 = cx.sym("a", (), requires_grad=True)
    b = cx.sym("b", (), requires_grad=True)
    c = cx.sym("c", (), requires_grad=True)
    g = cx.sym("g", (2,))
    mod = FTuple(a0)
    a = mod.a

    def step(x, *pparams):
        return x * s + delta
    res = mcquad(mod.forward, lambda x, c_: _logp(x, c_), x0, fparams=(b,), pparams=(c,), method="mhcustom",
                 nsamples=nsamples, nburnout=nburnout, custom_step=step)
    ref = mcquad(lambda x, a_, b_: (_f(x, a_, b_), (b_ * x).sum() * a_), lambda x, c_: _logp(x, c_), x0, fparams=(a, b),
                 pparams=(c,), method="mhcustom", nsamples=nsamples, nburnout=nburnout, custom_step=step)
    l1 = g[0] * res[0].sum() + g[1] * res[1].sum()
    l2 = g[0] * ref[0].sum() + g[1] * ref[1].sum()
    cx.claim_eq("value", l1, l2)
    g1 = grads(l1, [a, b, c], create_graph=True)
    g2 = grads(l2, [a, b, c], create_graph=True)
    for nm, x, y in zip(["a (object-held)", "b", "c"], g1, g2):
        cx.claim_eq("d/d" + nm, x, y)
    c1 = sum((0.5 * (i + 1) * gi).sum() for i, gi in enumerate(zero_if_none(g1, [a, b, c])))
    c2 = sum((0.5 * (i + 1) * gi).sum() for i, gi in enumerate(zero_if_none(g2, [a, b, c])))
    for nm, x, y in zip(["a", "b", "c"], grads(c1, [a, b, c]), grads(c2, [a, b, c])):
        cx.claim_eq("d2/d" + nm, x, y)
    return "ok"


class FPnn(torch.nn.Module):
    """f and log p are two methods of ONE module; both read the shared parameter w"""
    def __init__(self, a, w):
        super().__init__()
        self.a = torch.nn.Parameter(a)
        self.w = torch.nn.Parameter(w)

    def forward(self, x, b):
        return _f(x, self.a, b) * self.w

    def logp(self, x):
        return (-self.w * x * x).sum()


class FPed(xitorch.EditableModule):
    def __init__(self, a, w):
        self.a = a
        self.w = w

    def forward(self, x, b):
        return _f(x, self.a, b) * self.w

    def logp(self, x):
        return (-self.w * x * x).sum()

    def getparamnames(self, methodname, prefix=""):
        if methodname == "forward":
            return [prefix + "a", prefix + "w"]
        if methodname == "logp":
            return [prefix + "w"]
        raise KeyError(methodname)


def same_object(cx, kind="nn", nsamples=2, nburnout=1):
    """f and log p given as two methods of the same object (mhcustom, deterministic step): values and first/second-order
    gradients equal those of the pure-function call on the same leaves"""
    s = cx.scalar("s")
    delta = cx.scalar("delta")
    x0 = cx.sym("x0", (1,))
    a0 = cx.sym("a", (), requires_grad=True)
    w0 = cx.sym("w", (), requires_grad=True)
    b = cx.sym("b", (), requires_grad=True)
    g = cx.sym("g", (1,))
    mod = FPnn(a0, w0) if kind == "nn" else FPed(a0, w0)
    a, w = mod.a, mod.w

    def step(x, *pparams):
        return x * s + delta
    res = mcquad(mod.forward, mod.logp, x0, fparams=(b,), pparams=(), method="mhcustom", nsamples=nsamples,
                 nburnout=nburnout, custom_step=step)
    ref = mcquad(lambda x, a_, b_, w_: _f(x, a_, b_) * w_, lambda x, w_: (-w_ * x * x).sum(), x0, fparams=(a, b, w),
                 pparams=(w,), method="mhcustom", nsamples=nsamples, nburnout=nburnout, custom_step=step)
    l1, l2 = (g * res).sum(), (g * ref).sum()
    cx.claim_eq("value", l1, l2)
    leaves = [a, b, w]
    g1 = grads(l1, leaves, create_graph=True)
    g2 = grads(l2, leaves, create_graph=True)
    for nm, x, y in zip(["a (object-held, f only)", "b", "w (object-held, f and log p)"], g1, g2):
        cx.claim_eq("d/d" + nm, x, y)
    # plain (non-recording) backward as well
    res_b = mcquad(mod.forward, mod.logp, x0, fparams=(b,), pparams=(), method="mhcustom", nsamples=nsamples,
                   nburnout=nburnout, custom_step=step)
    for nm, x, y in zip(["a", "b", "w"], grads((g * res_b).sum(), leaves), g2):
        cx.claim_eq("plain backward d/d" + nm, x, y)
    c1 = sum((0.5 * (i + 1) * gi).sum() for i, gi in enumerate(zero_if_none(g1, leaves)))
    c2 = sum((0.5 * (i + 1) * gi).sum() for i, gi in enumerate(zero_if_none(g2, leaves)))
    for nm, x, y in zip(["a", "b", "w"], grads(c1, leaves), grads(c2, leaves)):
        cx.claim_eq("d2/d" + nm, x, y)
    if kind == "nn":
        cx.claim_true("module parameters restored", list(dict(mod.named_parameters()).keys()) == ["a", "w"]
                      and mod.a is a and mod.w is w)
    else:
        cx.claim_true("object attributes restored", mod.a is a and mod.w is w)
    return "ok"


def configs(tier):
    cfgs = []

    def add(id_, scenario, opts=None, **params):
        cfgs.append({"id": id_, "scenario": scenario, "params": params, "opts": opts or {}})

    add("mhcustom/ns3_nb2/tensor", custom, nsamples=3, nburnout=2)
    add("mhcustom/ns4_nb2/tensor", custom, nsamples=4, nburnout=2)
    add("mhcustom/ns2_nb3/tensor", custom, nsamples=2, nburnout=3)
    add("mhcustom/ns3_nb1/tuple", custom, nsamples=3, nburnout=1, out="tuple")
    add("mhcustom/ns2_nb2/2nd", custom, nsamples=2, nburnout=2, second=True)
    add("mhcustom/ns3_nb2/buffered_step", custom, nsamples=3, nburnout=2, buffered=True)
    for where in ("f", "logp"):
        for kind in ("derived", "duplicate"):
            add("param_graph/%s/%s" % (where, kind), param_graph, kind=kind, where=where)
    add("tuple_module/nn", tuple_module)
    add("same_object/nn", same_object, kind="nn")
    add("same_object/editable", same_object, kind="editable")
    add("mh/ns2_nb1", mh_two, nsamples=2, nburnout=1, opts={"max_paths": 300})
    if tier == "thorough":
        add("mhcustom/ns4_nb3/tuple", custom, nsamples=4, nburnout=3, out="tuple", opts={"budget_s": 900})
        add("mh/ns3_nb1", mh_two, nsamples=3, nburnout=1, opts={"budget_s": 1500, "max_paths": 400})
    return cfgs
