"""Truncated power series ('jets') in one step-size variable h, with symbolic (S) coefficients.
The real Runge-Kutta steppers only add and multiply, so they run unchanged on tensors whose elements are jets;
order statements become identities between Taylor coefficients."""
from fractions import Fraction

import numpy as np
import z3

from .core import S, SB, _b, Inconclusive


class JetEq:
    """result of jet == jet: one equality per coefficient (consumed by claim_eq)"""

    def __init__(self, terms):
        self.terms = terms

    def _claim_terms(self):
        out = []
        for t in self.terms:
            if isinstance(t, (bool, np.bool_)):
                out.append(z3.BoolVal(bool(t)))
            else:
                out.append(_b(t))
        return out


class J:
    _symtorch_scalar = True
    __array_priority__ = 3000
    P = 5          # truncation order (coefficients h^0..h^P are kept)
    H_EVAL = Fraction(1, 8)

    __slots__ = ("c",)

    def __init__(self, cs):
        cs = [c if isinstance(c, S) else S(c) for c in cs]
        cs = cs + [S(0)] * (J.P + 1 - len(cs))
        self.c = cs[:J.P + 1]

    @staticmethod
    def lift(x):
        if isinstance(x, J):
            return x
        return J([S(x)])

    @staticmethod
    def _ok(o):
        return isinstance(o, (J, S, int, float, Fraction, np.integer, np.floating))

    def __add__(self, o):
        if not J._ok(o):
            return NotImplemented
        o = J.lift(o)
        return J([a + b for a, b in zip(self.c, o.c)])
    __radd__ = __add__

    def __neg__(self):
        return J([-a for a in self.c])

    def __sub__(self, o):
        if not J._ok(o):
            return NotImplemented
        return self + (-J.lift(o))

    def __rsub__(self, o):
        if not J._ok(o):
            return NotImplemented
        return J.lift(o) - self

    def __mul__(self, o):
        if not J._ok(o):
            return NotImplemented
        if not isinstance(o, J):
            o = S(o)
            return J([a * o for a in self.c])
        out = [S(0)] * (J.P + 1)
        for i, a in enumerate(self.c):
            if a.const() == 0:
                continue
            for j, b in enumerate(o.c):
                if i + j > J.P:
                    break
                if b.const() == 0:
                    continue
                out[i + j] = out[i + j] + a * b
        return J(out)
    __rmul__ = __mul__

    def __truediv__(self, o):
        if not J._ok(o):
            return NotImplemented
        if not isinstance(o, J):
            o = S(o)
            return J([a / o for a in self.c])
        # series division, needs an invertible constant term
        q = []
        for k in range(J.P + 1):
            acc = self.c[k]
            for j in range(k):
                acc = acc - q[j] * o.c[k - j]
            q.append(acc / o.c[0])
        return J(q)

    def __rtruediv__(self, o):
        if not J._ok(o):
            return NotImplemented
        return J.lift(o) / self

    def __pow__(self, k):
        if isinstance(k, S):
            k = k.const()
        k = Fraction(k)
        if k.denominator != 1 or k < 0:
            raise Inconclusive("jet ** %s" % k)
        r = J([S(1)])
        for _ in range(int(k)):
            r = r * self
        return r

    def __eq__(self, o):
        o = J.lift(o)
        return JetEq([a == b for a, b in zip(self.c, o.c)])

    def __ne__(self, o):
        raise Inconclusive("jet != jet")
    __hash__ = None

    def _cmp(self, o, kind):
        raise Inconclusive("ordering of jets (step-size control is checked on real-valued runs)")
    __lt__ = lambda self, o: self._cmp(o, "lt")
    __le__ = lambda self, o: self._cmp(o, "le")
    __gt__ = lambda self, o: self._cmp(o, "gt")
    __ge__ = lambda self, o: self._cmp(o, "ge")

    def conjugate(self):
        return self
    conj = conjugate

    def _to_floats(self):
        v = 0.0
        hp = 1.0
        for a in self.c:
            c = a.const()
            if c is None:
                raise TypeError("symbolic jet coefficient")
            v += float(c) * hp
            hp *= float(J.H_EVAL)
        return [v]

    def __repr__(self):
        return "J%r" % (self.c,)


def _install():
    """let S defer to J in mixed arithmetic"""
    for nm in ["__add__", "__radd__", "__sub__", "__rsub__", "__mul__", "__rmul__", "__truediv__", "__rtruediv__"]:
        orig = getattr(S, nm)

        def mk(orig):
            def f(self, o):
                if isinstance(o, J):
                    return NotImplemented
                return orig(self, o)
            return f
        setattr(S, nm, mk(orig))


_install()


def jet_const(x):
    return J([S(x)])


def jet_var(t0=None):
    """the series t0 + h (t0 an S or number)"""
    return J([S(t0) if t0 is not None else S(0), S(1)])
