"""SymTensor: a torch.Tensor wrapper subclass whose payload is a numpy object array of symbolic scalars,
plus the ATen shim (the only part of torch that is re-implemented; autograd, the dispatcher, views,
custom Functions etc. are torch's own)."""
import operator
from fractions import Fraction

import numpy as np
import torch
import z3
from torch.utils._python_dispatch import TorchDispatchMode
from torch.utils._pytree import tree_map

from .core import (S, SB, C, Explorer, Inconclusive, PathAbort, ite, smax, smin, ssqrt, band, bor, bnot,
                   _b, _r, uapply, rat, fresh_real)

FLOAT = torch.float64
CPLX = torch.complex128


def _is_symkind(x):
    return isinstance(x, (S, SB, C)) or hasattr(x, "_symtorch_scalar")


def lift_elem(x):
    if _is_symkind(x):
        return x
    if isinstance(x, (bool, np.bool_)):
        return bool(x)
    if isinstance(x, (complex, np.complexfloating)):
        return C.lift(x)
    return S(x)


def _full(shape, v):
    a = np.empty(tuple(int(s) for s in shape), dtype=object)
    if a.ndim == 0:
        a[()] = v
    else:
        a[...] = v
    return a


def from_real(t):
    """real torch tensor -> object ndarray of exact scalars"""
    t = t.detach()
    if t.is_conj():
        t = t.resolve_conj()
    n = t.cpu().numpy()
    out = np.empty(n.shape, dtype=object)
    if n.dtype == np.bool_:
        for idx in np.ndindex(n.shape):
            out[idx] = bool(n[idx])
    elif np.iscomplexobj(n):
        for idx in np.ndindex(n.shape):
            out[idx] = C.lift(complex(n[idx]))
    elif np.issubdtype(n.dtype, np.integer):
        for idx in np.ndindex(n.shape):
            out[idx] = S(int(n[idx]))
    else:
        for idx in np.ndindex(n.shape):
            out[idx] = S(float(n[idx]))
    return out


class SymTensor(torch.Tensor):
    @staticmethod
    def __new__(cls, data, dtype=FLOAT, requires_grad=False):
        data = np.asarray(data, dtype=object)
        r = torch.Tensor._make_wrapper_subclass(cls, tuple(data.shape), dtype=dtype, device="cpu",
                                                requires_grad=requires_grad)
        r._d = data
        return r

    def __repr__(self, *a, **k):
        return "SymTensor(%s, dtype=%s)" % (self._d.tolist(), self.dtype)

    @classmethod
    def __torch_function__(cls, func, types, args=(), kwargs=None):
        kwargs = kwargs or {}
        conv = lambda a: T(np.asarray(a, dtype=object)) if _is_symkind(a) else a
        args = tree_map(conv, args)
        kwargs = tree_map(conv, kwargs)
        with torch._C.DisableTorchFunctionSubclass():
            return func(*args, **kwargs)

    @classmethod
    def __torch_dispatch__(cls, func, types, args=(), kwargs=None):
        return dispatch(func, args, kwargs or {})

    # python-boundary conversions: hand symbolic scalars to Python instead of concretising
    def item(self):
        assert self._d.size == 1, "item() of a tensor with %d elements" % self._d.size
        v = self._d.reshape(-1)[0]
        if isinstance(v, S):
            c = v.const()
            if c is not None and not v.isinf:
                # concrete value: behave like torch (python float)
                return float(c)
        return v

    def __bool__(self):
        assert self._d.size == 1, "bool() of a tensor with %d elements" % self._d.size
        v = self._d.reshape(-1)[0]
        if isinstance(v, (S, C)):
            v = (v != 0)
        return bool(v)

    def __float__(self):
        return float(self._d.reshape(-1)[0])

    def __int__(self):
        return int(self._d.reshape(-1)[0])

    def __index__(self):
        return self._d.reshape(-1)[0].__index__()

    def __len__(self):
        return self.shape[0]

    def tolist(self):
        return self._d.tolist()

    def numpy(self):
        raise Inconclusive("numpy() of a symbolic tensor")

    def __format__(self, spec):
        return repr(self)


def D(x):
    """payload of anything tensor-like"""
    if isinstance(x, SymTensor):
        return x._d
    if isinstance(x, torch.Tensor):
        return from_real(x)
    return x


def _dtype_of_elems(d):
    flat = d.reshape(-1)
    if flat.size == 0:
        return FLOAT
    if all(isinstance(e, (bool, np.bool_, SB)) for e in flat):
        return torch.bool
    if any(isinstance(e, C) for e in flat):
        return CPLX
    return FLOAT


def T(d, dtype=None):
    d = np.asarray(d, dtype=object)
    if dtype is None:
        dtype = _dtype_of_elems(d)
    if dtype in (torch.complex64, torch.complex128):
        dtype = CPLX
        flat = d.reshape(-1)
        if any(not isinstance(e, C) for e in flat):
            d = _ew1(C.lift)(d) if d.size else d
    elif dtype == torch.bool:
        pass
    elif dtype.is_floating_point:
        dtype = FLOAT
    return SymTensor(d, dtype=dtype)


def _ew(f):
    return np.frompyfunc(f, 2, 1)


def _ew1(f):
    return np.frompyfunc(f, 1, 1)


def _arr(x):
    x = D(x)
    if not isinstance(x, np.ndarray):
        x = np.asarray(lift_elem(x), dtype=object)
    return x


def _bc(a, b):
    return _arr(a), _arr(b)


def _rd(*xs):
    """result dtype of an arithmetic op"""
    for x in xs:
        if isinstance(x, torch.Tensor):
            if x.dtype.is_complex:
                return CPLX
        elif isinstance(x, (complex, np.complexfloating, C)):
            return CPLX
        elif isinstance(x, np.ndarray) and x.size and any(isinstance(e, C) for e in x.reshape(-1)):
            return CPLX
    return FLOAT


OPS = {}
USED_OPS = set()
MASK_FORK = [True]   # masked in-place assignment x[mask] = v forks on each symbolic mask element


def op(*names):
    def deco(f):
        for n in names:
            OPS[n] = f
        return f
    return deco


def _has_sym(args, kwargs):
    found = [False]

    def chk(a):
        if isinstance(a, SymTensor) or _is_symkind(a):
            found[0] = True
        return a
    tree_map(chk, args)
    tree_map(chk, kwargs)
    return found[0]


def _has_float_tensor(args, kwargs):
    found = [False]

    def chk(a):
        if isinstance(a, torch.Tensor) and (a.dtype.is_floating_point or a.dtype.is_complex):
            found[0] = True
        return a
    tree_map(chk, args)
    tree_map(chk, kwargs)
    return found[0]


_FACTORIES = {"aten.zeros.default", "aten.ones.default", "aten.empty.memory_format", "aten.full.default",
              "aten.eye.default", "aten.eye.m", "aten.scalar_tensor.default", "aten.randn.default",
              "aten.rand.default", "aten.linspace.default", "aten.arange.default", "aten.arange.start",
              "aten.arange.start_step", "aten.empty_strided.default", "aten.zeros_like.default"}


def _factory_dtype(name, args, kwargs):
    dt = kwargs.get("dtype", None)
    if dt is None:
        if name.startswith("aten.arange"):
            if all(isinstance(a, (int, np.integer)) for a in args):
                return torch.int64
        if name == "aten.full.default" and isinstance(args[1], bool):
            return torch.bool
        if name == "aten.full.default" and isinstance(args[1], int):
            return torch.int64
        if name == "aten.scalar_tensor.default" and isinstance(args[0], bool):
            return torch.bool
        return torch.get_default_dtype()
    return dt


def dispatch(func, args, kwargs, in_mode=False):
    name = str(func)
    sym = _has_sym(args, kwargs)
    if not sym:
        # no symbolic argument: integer / bool computations stay real torch; floating ones enter the shim
        if name in _FACTORIES:
            dt = _factory_dtype(name, args, kwargs)
            if not (dt.is_floating_point or dt.is_complex):
                return func(*args, **kwargs)
        elif not _has_float_tensor(args, kwargs):
            return func(*args, **kwargs)
        elif not in_mode:
            return func(*args, **kwargs)
    f = OPS.get(name)
    if f is None:
        raise Inconclusive("symtorch: unsupported aten op %s (args %s, kwargs %s)" % (
            name, [type(a).__name__ for a in args], list(kwargs)))
    USED_OPS.add(name)
    return f(*args, **kwargs)


class SymMode(TorchDispatchMode):
    """inside this mode factory functions and float computations produce SymTensors too"""

    def __torch_dispatch__(self, func, types, args=(), kwargs=None):
        return dispatch(func, args, kwargs or {}, in_mode=True)


# ------------------------------------------------------------------------------------------ arithmetic
def _scale(b, alpha):
    if alpha != 1:
        return b * lift_elem(alpha)
    return b


@op("aten.add.Tensor", "aten.add.Scalar")
def _add(a, b, alpha=1):
    dt = _rd(a, b)
    a, b = _bc(a, b)
    return T(a + _scale(b, alpha), dtype=dt)


@op("aten.sub.Tensor", "aten.sub.Scalar")
def _sub(a, b, alpha=1):
    dt = _rd(a, b)
    a, b = _bc(a, b)
    return T(a - _scale(b, alpha), dtype=dt)


@op("aten.rsub.Scalar", "aten.rsub.Tensor")
def _rsub(a, b, alpha=1):
    dt = _rd(a, b)
    a, b = _bc(a, b)
    return T(b - _scale(a, alpha), dtype=dt)


@op("aten.mul.Tensor", "aten.mul.Scalar")
def _mul(a, b):
    dt = _rd(a, b)
    a, b = _bc(a, b)
    if a.size and b.size and isinstance(a.reshape(-1)[0], (bool, SB)):
        a = _ew1(lambda x: ite(x, S(1), S(0)))(a)
    if a.size and b.size and isinstance(b.reshape(-1)[0], (bool, SB)):
        b = _ew1(lambda x: ite(x, S(1), S(0)))(b)
    return T(a * b, dtype=dt)


@op("aten.div.Tensor", "aten.div.Scalar")
def _div(a, b):
    dt = _rd(a, b)
    a, b = _bc(a, b)
    return T(a / b, dtype=dt)


@op("aten.neg.default")
def _neg(a):
    return T(-D(a), dtype=a.dtype)


@op("aten.abs.default")
def _abs(a):
    return T(_ew1(abs)(D(a)), dtype=FLOAT)


@op("aten.sgn.default", "aten.sign.default")
def _sgn(a):
    if a.dtype.is_complex:
        raise Inconclusive("sgn of complex")
    return T(_ew1(lambda x: ite(x > 0, S(1), ite(x < 0, S(-1), S(0))))(D(a)), dtype=FLOAT)


@op("aten.sqrt.default")
def _sqrt(a):
    return T(_ew1(ssqrt)(D(a)), dtype=a.dtype)


@op("aten.rsqrt.default")
def _rsqrt(a):
    return T(_ew1(lambda x: S(1) / ssqrt(x))(D(a)), dtype=a.dtype)


@op("aten.pow.Tensor_Scalar")
def _pow(a, k):
    return T(_ew1(lambda x: x ** k)(D(a)), dtype=a.dtype)


@op("aten.pow.Tensor_Tensor")
def _powtt(a, k):
    a, k = _bc(a, k)
    return T(_ew(lambda x, y: x ** y)(a, k), dtype=FLOAT)


@op("aten.pow.Scalar")
def _pows(a, k):
    raise Inconclusive("scalar ** tensor")


@op("aten.reciprocal.default")
def _recip(a):
    return T(_ew1(lambda x: lift_elem(1) / x)(D(a)), dtype=a.dtype)


def _unary_uf(name):
    def f(a):
        def g(x):
            if isinstance(x, C):
                raise Inconclusive("%s of complex" % name)
            c = x.const()
            import math
            if c is not None:
                return S(rat(getattr(math, name)(float(c))))
            if isinstance(x, S) and x.isinf and isinstance(x.n, Fraction) and x.n != 0 and name in ("atan", "tanh"):
                return S(rat(getattr(math, name)(float("inf") if x.n > 0 else float("-inf"))))
            return uapply(name, x)
        return T(_ew1(g)(D(a)), dtype=a.dtype)
    return f


for _n in ["tanh", "exp", "tan", "atan", "cos", "sin", "log", "sinh", "cosh"]:
    OPS["aten.%s.default" % _n] = _unary_uf(_n)


@op("aten.sigmoid.default")
def _sigmoid(a):
    return T(_ew1(lambda x: uapply("sigmoid", x))(D(a)), dtype=a.dtype)


def _inplace(binop):
    def f(self, *a, **k):
        r = binop(self, *a, **k)
        _assign(self, r._d)
        return self
    return f


def _assign(dst, src):
    if not isinstance(dst, SymTensor):
        raise Inconclusive("in-place write of symbolic data into a real tensor")
    src = np.asarray(src, dtype=object)
    if dst.dtype == CPLX and src.size and not isinstance(src.reshape(-1)[0], C):
        src = _ew1(C.lift)(src)
    if dst._d.ndim == 0:
        dst._d[()] = src.reshape(-1)[0] if src.size == 1 else src
    else:
        dst._d[...] = np.broadcast_to(src, dst._d.shape)


OPS["aten.add_.Tensor"] = OPS["aten.add_.Scalar"] = _inplace(_add)
OPS["aten.sub_.Tensor"] = OPS["aten.sub_.Scalar"] = _inplace(_sub)
OPS["aten.mul_.Tensor"] = OPS["aten.mul_.Scalar"] = _inplace(_mul)
OPS["aten.div_.Tensor"] = OPS["aten.div_.Scalar"] = _inplace(_div)
OPS["aten.neg_.default"] = _inplace(_neg)


@op("aten.addcmul.default")
def _addcmul(a, t1, t2, value=1):
    return _add(a, _mul(_mul(t1, t2), value))


@op("aten.addcdiv.default")
def _addcdiv(a, t1, t2, value=1):
    return _add(a, _mul(_div(t1, t2), value))


OPS["aten.addcmul_.default"] = _inplace(_addcmul)
OPS["aten.addcdiv_.default"] = _inplace(_addcdiv)


@op("aten.addmm.default")
def _addmm(bias, a, b, beta=1, alpha=1):
    return _add(_mul(bias, beta), _mul(_mm(a, b), alpha))


@op("aten.lerp.Scalar", "aten.lerp.Tensor")
def _lerp(a, b, w):
    return _add(a, _mul(_sub(b, a), w))


# ------------------------------------------------------------------------------------------ comparison / logic
def _cmpop(pyop):
    def f(a, b):
        a, b = _bc(a, b)
        return T(_ew(pyop)(a, b), dtype=torch.bool)
    return f


OPS["aten.lt.Tensor"] = OPS["aten.lt.Scalar"] = _cmpop(operator.lt)
OPS["aten.le.Tensor"] = OPS["aten.le.Scalar"] = _cmpop(operator.le)
OPS["aten.gt.Tensor"] = OPS["aten.gt.Scalar"] = _cmpop(operator.gt)
OPS["aten.ge.Tensor"] = OPS["aten.ge.Scalar"] = _cmpop(operator.ge)
OPS["aten.eq.Tensor"] = OPS["aten.eq.Scalar"] = _cmpop(operator.eq)
OPS["aten.ne.Tensor"] = OPS["aten.ne.Scalar"] = _cmpop(operator.ne)


def _tobool(e):
    if isinstance(e, (S, C)):
        return e != 0
    return e


@op("aten.logical_and.default", "aten.bitwise_and.Tensor")
def _land(a, b):
    a, b = _bc(a, b)
    return T(_ew(lambda x, y: band(_tobool(x), _tobool(y)))(a, b), dtype=torch.bool)


@op("aten.logical_or.default", "aten.bitwise_or.Tensor")
def _lor(a, b):
    a, b = _bc(a, b)
    return T(_ew(lambda x, y: bor(_tobool(x), _tobool(y)))(a, b), dtype=torch.bool)


@op("aten.logical_not.default", "aten.bitwise_not.default")
def _lnot(a):
    return T(_ew1(lambda x: bnot(_tobool(x)))(D(a)), dtype=torch.bool)


OPS["aten.logical_and_.default"] = OPS["aten.bitwise_and_.Tensor"] = _inplace(_land)
OPS["aten.logical_or_.default"] = OPS["aten.bitwise_or_.Tensor"] = _inplace(_lor)
OPS["aten.logical_not_.default"] = _inplace(_lnot)


def _reduce_bool(f, init, d, dim, keepdim):
    if dim is None:
        r = init
        for e in d.reshape(-1):
            r = f(r, _tobool(e))
        out = np.asarray(r, dtype=object)
        if keepdim:
            out = out.reshape((1,) * d.ndim)
        return T(out, dtype=torch.bool)
    if isinstance(dim, int):
        dim = [dim]
    dim = [x % d.ndim for x in dim]
    dm = np.moveaxis(d, dim, list(range(-len(dim), 0)))
    lead = dm.shape[:d.ndim - len(dim)]
    dm = dm.reshape(lead + (-1,))
    out = np.empty(lead, dtype=object)
    for idx in np.ndindex(lead):
        r = init
        for e in dm[idx]:
            r = f(r, _tobool(e))
        out[idx] = r
    if keepdim:
        for x in sorted(dim):
            out = np.expand_dims(out, x)
    return T(out, dtype=torch.bool)


@op("aten.all.default", "aten.all.dim", "aten.all.dims")
def _all(a, dim=None, keepdim=False):
    return _reduce_bool(band, True, D(a), dim, keepdim)


@op("aten.any.default", "aten.any.dim", "aten.any.dims")
def _any(a, dim=None, keepdim=False):
    return _reduce_bool(bor, False, D(a), dim, keepdim)


@op("aten.isnan.default")
def _isnan(a):
    def f(x):
        return bool(isinstance(x, S) and x.isinf and isinstance(x.n, Fraction) and x.n == 0)
    return T(_ew1(f)(D(a)), dtype=torch.bool)


@op("aten.isfinite.default")
def _isfinite(a):
    return T(_ew1(lambda x: not (isinstance(x, S) and x.isinf))(D(a)), dtype=torch.bool)


@op("aten.isinf.default")
def _isinf(a):
    return T(_ew1(lambda x: (isinstance(x, S) and x.isinf))(D(a)), dtype=torch.bool)


@op("aten.isclose.default")
def _isclose(a, b, rtol=1e-5, atol=1e-8, equal_nan=False):
    a, b = _bc(a, b)

    def f(x, y):
        if isinstance(x, C) or isinstance(y, C):
            # |x-y| <= atol + rtol*|y| without square roots: with D=|x-y|^2, Y=|y|^2, L = D - atol^2 - rtol^2 Y:
            # true iff L <= 0 or L^2 <= 4 atol^2 rtol^2 Y
            x, y = C.lift(x), C.lift(y)
            Dq = (x - y).abs2()
            Yq = y.abs2()
            at, rt = S(atol), S(rtol)
            L = Dq - at * at - rt * rt * Yq
            return bor(L <= 0, L * L <= 4 * at * at * rt * rt * Yq)
        return abs(x - y) <= S(atol) + S(rtol) * abs(y)
    return T(_ew(f)(a, b), dtype=torch.bool)


@op("aten.allclose.default")
def _allclose(a, b, rtol=1e-5, atol=1e-8, equal_nan=False):
    return bool(_all(_isclose(a, b, rtol, atol)))


@op("aten.equal.default")
def _equal(a, b):
    if tuple(a.shape) != tuple(b.shape):
        return False
    return bool(_all(OPS["aten.eq.Tensor"](a, b)))


@op("aten.is_nonzero.default")
def _isnz(a):
    v = D(a).reshape(-1)[0]
    return bool(_tobool(v))


@op("aten._local_scalar_dense.default")
def _lsd(a):
    v = D(a).reshape(-1)[0]
    if isinstance(v, (bool, np.bool_)):
        return bool(v)
    if isinstance(v, S):
        c = v.const()
        if c is not None:
            return float(c)
    if isinstance(v, C) and not v.sym:
        return complex(float(v.re.n), float(v.im.n))
    raise Inconclusive("_local_scalar_dense on a symbolic value (a C++-side .item())")


# ------------------------------------------------------------------------------------------ products
def _matmul(a, b):
    return np.matmul(a, b)


@op("aten.mm.default", "aten.bmm.default", "aten.matmul.default")
def _mm(a, b):
    dt = _rd(a, b)
    return T(_matmul(D(a), D(b)), dtype=dt)


@op("aten.mv.default")
def _mv(a, b):
    dt = _rd(a, b)
    return T(np.dot(D(a), D(b)), dtype=dt)


@op("aten.dot.default", "aten.vdot.default")
def _dot(a, b):
    dt = _rd(a, b)
    return T(np.asarray(np.dot(D(a), D(b)), dtype=object), dtype=dt)


@op("aten.ger.default", "aten.outer.default")
def _ger(a, b):
    dt = _rd(a, b)
    return T(np.multiply.outer(D(a), D(b)), dtype=dt)


# ------------------------------------------------------------------------------------------ views / shapes
def _keep(a, d):
    return T(d, dtype=a.dtype)


@op("aten.t.default")
def _t(a):
    return _keep(a, D(a).T)


@op("aten.transpose.int")
def _transpose(a, d0, d1):
    d = D(a)
    if d.ndim == 0:
        return _keep(a, d)
    return _keep(a, np.swapaxes(d, d0, d1))


@op("aten.permute.default")
def _permute(a, dims):
    return _keep(a, np.transpose(D(a), dims))


@op("aten.movedim.int", "aten.movedim.intlist")
def _movedim(a, src, dst):
    return _keep(a, np.moveaxis(D(a), src, dst))


@op("aten.view.default", "aten._unsafe_view.default", "aten.reshape.default", "aten._reshape_alias.default")
def _view(a, shape, *unused):
    return _keep(a, D(a).reshape(tuple(int(s) for s in shape)))


@op("aten.flatten.using_ints")
def _flatten(a, start_dim=0, end_dim=-1):
    d = D(a)
    if d.ndim == 0:
        return _keep(a, d.reshape(1))
    s = start_dim % d.ndim
    e = end_dim % d.ndim
    return _keep(a, d.reshape(d.shape[:s] + (-1,) + d.shape[e + 1:]))


@op("aten.unsqueeze.default")
def _unsq(a, dim):
    d = D(a)
    if dim < 0:
        dim = dim + d.ndim + 1
    return _keep(a, np.expand_dims(d, dim))


@op("aten.squeeze.dim")
def _sq(a, dim):
    d = D(a)
    if d.ndim == 0 or d.shape[dim] != 1:
        return _keep(a, d)
    return _keep(a, np.squeeze(d, axis=dim))


@op("aten.squeeze.dims")
def _sqdims(a, dims):
    d = D(a)
    ax = tuple(x % d.ndim for x in dims if d.ndim and d.shape[x] == 1)
    return _keep(a, np.squeeze(d, axis=ax) if ax else d)


@op("aten.squeeze.default")
def _sq0(a):
    return _keep(a, np.squeeze(D(a)))


@op("aten.expand.default")
def _expand(a, shape, implicit=False):
    d = D(a)
    shape = list(shape)
    nd = len(shape)
    ds = (1,) * (nd - d.ndim) + d.shape
    shape = [ds[i] if s == -1 else int(s) for i, s in enumerate(shape)]
    return _keep(a, np.broadcast_to(d, shape))


@op("aten.clone.default")
def _clone(a, memory_format=None):
    return _keep(a, D(a).copy())


@op("aten.detach.default", "aten.alias.default", "aten.contiguous.default", "aten.resolve_conj.default",
    "aten.resolve_neg.default", "aten.lift_fresh.default", "aten.lift.default", "aten.positive.default",
    "aten.view_as.default", "aten.lift_fresh_copy.default")
def _alias(a, *x, **k):
    if isinstance(a, SymTensor):
        return _keep(a, a._d)
    return T(D(a), dtype=a.dtype)


@op("aten._conj.default", "aten.conj.default", "aten.conj_physical.default", "aten._conj_physical.default")
def _conj(a):
    if not a.dtype.is_complex:
        return _alias(a)
    return T(_ew1(lambda x: x.conjugate())(D(a)), dtype=CPLX)


@op("aten.view_as_real.default")
def _view_as_real(a):
    d = D(a)
    out = np.empty(d.shape + (2,), dtype=object)
    for idx in np.ndindex(d.shape):
        c = C.lift(d[idx])
        out[idx + (0,)] = c.re
        out[idx + (1,)] = c.im
    return T(out, dtype=FLOAT)


@op("aten.real.default")
def _real(a):
    if str(a.dtype).startswith("torch.complex"):
        d = D(a)
        return T(_ew1(lambda x: C.lift(x).re)(d), dtype=FLOAT)
    return _alias(a)


@op("aten.imag.default")
def _imag(a):
    return T(_ew1(lambda x: C.lift(x).im)(D(a)), dtype=FLOAT)


@op("aten.complex.default")
def _complex(re, im):
    re, im = _bc(re, im)
    return T(_ew(lambda x, y: C(x, y))(re, im), dtype=CPLX)


@op("aten.view_as_complex.default")
def _vac(a):
    d = D(a)
    return T(_ew(lambda x, y: C(x, y))(d[..., 0], d[..., 1]), dtype=CPLX)


@op("aten._to_copy.default")
def _to_copy(a, dtype=None, **k):
    d = D(a).copy()
    if dtype is None or dtype == a.dtype:
        return T(d, dtype=a.dtype)
    if a.dtype == torch.bool and dtype != torch.bool:
        d = _ew1(lambda b: ite(b, S(1), S(0)))(d)
    if dtype.is_complex:
        return T(d, dtype=CPLX)
    if dtype.is_floating_point:
        if a.dtype.is_complex:
            d = _ew1(lambda x: C.lift(x).re)(d)
        return T(d, dtype=FLOAT)
    if dtype == torch.bool:
        return T(_ew1(_tobool)(d), dtype=torch.bool)
    # to an integer type: only for concrete integral values
    out = np.empty(d.shape, dtype=np.int64)
    for idx in np.ndindex(d.shape):
        c = d[idx].const() if isinstance(d[idx], S) else None
        if c is None:
            raise Inconclusive("conversion of symbolic values to an integer tensor")
        out[idx] = int(c)
    return torch.from_numpy(out).to(dtype)


@op("aten.sum.default")
def _sum(a, dtype=None):
    d = D(a)
    if d.size == 0:
        return T(np.asarray(S(0), dtype=object), dtype=a.dtype)
    return T(np.asarray(d.sum(), dtype=object), dtype=a.dtype if a.dtype != torch.bool else FLOAT)


@op("aten.sum.dim_IntList")
def _sumd(a, dim, keepdim=False, dtype=None):
    d = D(a)
    if dim is None or len(dim) == 0:
        dim = tuple(range(d.ndim))
    if d.ndim == 0:
        return T(d, dtype=a.dtype)
    dim = tuple(x % d.ndim for x in dim)
    if any(d.shape[x] == 0 for x in dim):
        shp = [1 if i in dim else s for i, s in enumerate(d.shape)] if keepdim else \
            [s for i, s in enumerate(d.shape) if i not in dim]
        return T(_full(shp, lift_elem(0)), dtype=a.dtype)
    return T(np.asarray(d.sum(axis=dim, keepdims=keepdim), dtype=object), dtype=a.dtype)


@op("aten.mean.default")
def _mean(a, dtype=None):
    d = D(a)
    return T(np.asarray(d.sum() / S(d.size), dtype=object), dtype=a.dtype)


@op("aten.mean.dim")
def _meand(a, dim, keepdim=False, dtype=None):
    d = D(a)
    if dim is None or len(dim) == 0:
        dim = tuple(range(d.ndim))
    dim = tuple(x % d.ndim for x in dim)
    n = 1
    for x in dim:
        n *= d.shape[x]
    return T(np.asarray(d.sum(axis=dim, keepdims=keepdim) / S(n), dtype=object), dtype=a.dtype)


@op("aten.cumsum.default")
def _cumsum(a, dim, dtype=None):
    d = D(a)
    return T(np.cumsum(d, axis=dim), dtype=a.dtype)


@op("aten.prod.default")
def _prod(a, dtype=None):
    r = lift_elem(1)
    for e in D(a).reshape(-1):
        r = r * e
    return T(np.asarray(r, dtype=object), dtype=a.dtype)


@op("aten.select.int")
def _select(a, dim, idx):
    d = D(a)
    sl = [slice(None)] * d.ndim
    sl[dim] = int(idx)
    r = d[tuple(sl)]
    if not isinstance(r, np.ndarray):
        # 0-d result: keep a view onto the parent element
        sl[dim] = slice(int(idx), int(idx) + 1 if int(idx) != -1 else None)
        r = d[tuple(sl)].reshape(())
    return _keep(a, r)


@op("aten.slice.Tensor")
def _slice(a, dim=0, start=None, end=None, step=1):
    d = D(a)
    sl = [slice(None)] * d.ndim
    if end is not None and end > 2 ** 62:
        end = None
    sl[dim] = slice(start, end, step)
    return _keep(a, d[tuple(sl)])


@op("aten.narrow.default")
def _narrow(a, dim, start, length):
    return _slice(a, dim, start, start + length)


@op("aten.unbind.int")
def _unbind(a, dim=0):
    return tuple(_select(a, dim, i) for i in range(a.shape[dim]))


@op("aten.split.Tensor")
def _split(a, size, dim=0):
    n = a.shape[dim]
    return tuple(_slice(a, dim, i, min(i + size, n)) for i in range(0, n, size))


@op("aten.split_with_sizes.default")
def _splitws(a, sizes, dim=0):
    out = []
    i = 0
    for s in sizes:
        out.append(_slice(a, dim, i, i + s))
        i += s
    return tuple(out)


@op("aten.cat.default")
def _cat(ts, dim=0):
    dt = _rd(*ts)
    if all(t.dtype == torch.bool for t in ts):
        dt = torch.bool
    ds = [D(t) for t in ts if not (t.ndim == 1 and t.shape[0] == 0 and len(ts) > 1)]
    return T(np.concatenate(ds, axis=dim), dtype=dt)


@op("aten.stack.default")
def _stack(ts, dim=0):
    dt = _rd(*ts)
    return T(np.stack([D(t) for t in ts], axis=dim), dtype=dt)


@op("aten.copy_.default")
def _copy_(self, src, non_blocking=False):
    _assign(self, _arr(src))
    return self


@op("aten.fill_.Scalar", "aten.fill_.Tensor")
def _fill_(self, v):
    v = D(v)
    if isinstance(v, np.ndarray):
        v = v.reshape(-1)[0]
    _assign(self, np.asarray(lift_elem(v), dtype=object))
    return self


@op("aten.zero_.default")
def _zero_(self):
    _assign(self, np.asarray(lift_elem(0), dtype=object))
    return self


@op("aten.repeat_interleave.self_int")
def _repint(a, repeats, dim=None, output_size=None):
    return _keep(a, np.repeat(D(a), repeats, axis=dim))


@op("aten.repeat.default")
def _repeat(a, reps):
    return _keep(a, np.tile(D(a), tuple(reps)))


@op("aten.flip.default")
def _flip(a, dims):
    return _keep(a, np.flip(D(a), axis=tuple(dims)).copy())


@op("aten.roll.default")
def _roll(a, shifts, dims=()):
    return _keep(a, np.roll(D(a), tuple(shifts), axis=tuple(dims) if dims else None))


@op("aten.diag_embed.default")
def _diag_embed(a, offset=0, dim1=-2, dim2=-1):
    d = D(a)
    assert offset == 0 and dim1 in (-2, d.ndim - 1) and dim2 in (-1, d.ndim)
    n = d.shape[-1]
    out = _full(d.shape + (n,), lift_elem(0) if a.dtype != CPLX else C(0))
    for idx in np.ndindex(d.shape):
        out[idx + (idx[-1],)] = d[idx]
    return _keep(a, out)


@op("aten.diagonal.default")
def _diagonal(a, offset=0, dim1=0, dim2=1):
    v = D(a).diagonal(offset=offset, axis1=dim1, axis2=dim2)
    try:
        v.setflags(write=True)
    except ValueError:
        pass
    return _keep(a, v)


@op("aten.diag.default")
def _diag(a, diagonal=0):
    d = D(a)
    if d.ndim == 1:
        return _diag_embed(a)
    return _keep(a, d.diagonal(diagonal).copy())


@op("aten.tril.default")
def _tril(a, diagonal=0):
    d = D(a).copy()
    for idx in np.ndindex(d.shape):
        if idx[-1] - idx[-2] > diagonal:
            d[idx] = lift_elem(0) if a.dtype != CPLX else C(0)
    return _keep(a, d)


@op("aten.triu.default")
def _triu(a, diagonal=0):
    d = D(a).copy()
    for idx in np.ndindex(d.shape):
        if idx[-1] - idx[-2] < diagonal:
            d[idx] = lift_elem(0) if a.dtype != CPLX else C(0)
    return _keep(a, d)


# ------------------------------------------------------------------------------------------ factories
def _zero_for(dtype):
    if dtype == torch.bool:
        return False
    if dtype is not None and dtype.is_complex:
        return C(0)
    return S(0)


def _fdt(dtype):
    if dtype is None:
        return FLOAT
    if dtype == torch.bool:
        return torch.bool
    if dtype.is_complex:
        return CPLX
    return FLOAT


@op("aten.zeros.default", "aten.empty.memory_format", "aten.empty_strided.default")
def _zeros(shape, *a, dtype=None, **k):
    return T(_full(shape, _zero_for(dtype)), dtype=_fdt(dtype))


@op("aten.ones.default")
def _ones(shape, dtype=None, **k):
    return T(_full(shape, lift_elem(1)), dtype=_fdt(dtype))


@op("aten.zeros_like.default", "aten.empty_like.default")
def _zl(a, dtype=None, **k):
    dt = dtype if dtype is not None else a.dtype
    return T(_full(a.shape, _zero_for(dt)), dtype=_fdt(dt))


@op("aten.ones_like.default")
def _ol(a, dtype=None, **k):
    dt = dtype if dtype is not None else a.dtype
    return T(_full(a.shape, lift_elem(1)), dtype=_fdt(dt))


@op("aten.full.default")
def _fulld(shape, v, dtype=None, **k):
    return T(_full(shape, lift_elem(v)), dtype=_fdt(dtype))


@op("aten.full_like.default")
def _fulll(a, v, dtype=None, **k):
    dt = dtype if dtype is not None else a.dtype
    return T(_full(a.shape, lift_elem(v)), dtype=_fdt(dt))


@op("aten.new_zeros.default", "aten.new_empty.default")
def _new_zeros(a, shape, dtype=None, **k):
    dt = dtype if dtype is not None else a.dtype
    return T(_full(shape, _zero_for(dt)), dtype=_fdt(dt))


@op("aten.new_ones.default")
def _new_ones(a, shape, dtype=None, **k):
    dt = dtype if dtype is not None else a.dtype
    return T(_full(shape, lift_elem(1)), dtype=_fdt(dt))


@op("aten.new_full.default")
def _new_full(a, shape, v, dtype=None, **k):
    dt = dtype if dtype is not None else a.dtype
    return T(_full(shape, lift_elem(v)), dtype=_fdt(dt))


@op("aten.eye.default")
def _eye(n, dtype=None, **k):
    return _eyem(n, n, dtype=dtype)


@op("aten.eye.m")
def _eyem(n, m, dtype=None, **k):
    a = _full((n, m), _zero_for(dtype))
    for i in range(min(n, m)):
        a[i, i] = lift_elem(1)
    return T(a, dtype=_fdt(dtype))


@op("aten.scalar_tensor.default")
def _scalar_tensor(v, dtype=None, **k):
    return T(np.asarray(lift_elem(v), dtype=object), dtype=_fdt(dtype) if dtype is not None else None)


@op("aten.linspace.default")
def _linspace(start, end, steps, dtype=None, **k):
    s, e = S(start), S(end)
    out = np.empty((steps,), dtype=object)
    for i in range(steps):
        out[i] = s + (e - s) * Fraction(i, max(steps - 1, 1))
    return T(out, dtype=FLOAT)


@op("aten.arange.default", "aten.arange.start", "aten.arange.start_step")
def _arange(*a, dtype=None, **k):
    import numpy as _np
    vals = _np.arange(*[float(x) for x in a])
    out = np.empty(vals.shape, dtype=object)
    for i, v in enumerate(vals):
        out[i] = S(float(v))
    return T(out, dtype=FLOAT)


RANDOM_LOG = []
RAND_KIND = ["randn"]


def _mk_rand(kind):
    def f(shape, *a, dtype=None, **k):
        RAND_KIND[0] = kind
        return _randn(shape, *a, dtype=dtype, **k)
    return f



@op("aten.randn.default", "aten.rand.default", "aten.randn_like.default", "aten.rand_like.default",
    "aten.normal_.default", "aten.uniform_.default")
def _randn(shape, *a, dtype=None, **k):
    """randomness = an arbitrary value of its type: fresh symbols (real torch values in the concrete
    translator-validation mode, so that a seeded scenario sees the same numbers as the real run)"""
    if isinstance(shape, torch.Tensor):
        shape = shape.shape
    ex = Explorer.cur
    if ex is not None and getattr(ex, "concrete", False):
        real = (torch.randn if RAND_KIND[0] == "randn" else torch.rand)(tuple(shape), dtype=torch.float64)
        return T(from_real(real), dtype=FLOAT)
    out = np.empty(tuple(shape), dtype=object)
    for idx in np.ndindex(out.shape):
        v = fresh_real("rnd")
        RANDOM_LOG.append(v)
        out[idx] = S(v)
    return T(out, dtype=FLOAT)


# ------------------------------------------------------------------------------------------ selection
@op("aten.where.self", "aten.where.ScalarOther", "aten.where.ScalarSelf", "aten.where.Scalar")
def _where(c, a, b):
    dt = _rd(a, b)
    c = D(c)
    a, b = _bc(a, b)
    c, a, b = np.broadcast_arrays(c, a, b)
    return T(np.frompyfunc(ite, 3, 1)(c, a, b), dtype=dt)


@op("aten.max.default")
def _maxall(a):
    r = None
    for e in D(a).reshape(-1):
        r = e if r is None else smax(r, e)
    return T(np.asarray(r, dtype=object), dtype=FLOAT)


@op("aten.min.default")
def _minall(a):
    r = None
    for e in D(a).reshape(-1):
        r = e if r is None else smin(r, e)
    return T(np.asarray(r, dtype=object), dtype=FLOAT)


def _argreduce_dim(a, dim, keepdim, better):
    """max/min along a dim with indices: the index is made concrete through the explorer"""
    d = D(a)
    dim = dim % d.ndim
    dm = np.moveaxis(d, dim, -1)
    vals = np.empty(dm.shape[:-1], dtype=object)
    idxs = np.zeros(dm.shape[:-1], dtype=np.int64)
    for idx in np.ndindex(dm.shape[:-1]):
        best, bi = dm[idx][0], 0
        for j in range(1, dm.shape[-1]):
            if bool(better(dm[idx][j], best)):
                best, bi = dm[idx][j], j
        vals[idx] = best
        idxs[idx] = bi
    if keepdim:
        vals = np.expand_dims(vals, dim)
        idxs = np.expand_dims(idxs, dim)
    return T(vals, dtype=FLOAT), torch.from_numpy(np.ascontiguousarray(idxs))


@op("aten.max.dim")
def _maxdim(a, dim, keepdim=False):
    return _argreduce_dim(a, dim, keepdim, lambda x, y: x > y)


@op("aten.min.dim")
def _mindim(a, dim, keepdim=False):
    return _argreduce_dim(a, dim, keepdim, lambda x, y: x < y)


@op("aten.amax.default")
def _amax(a, dim=(), keepdim=False):
    d = D(a)
    if not dim:
        return _maxall(a)
    assert len(dim) == 1
    dm = np.moveaxis(d, dim[0], -1)
    out = np.empty(dm.shape[:-1], dtype=object)
    for idx in np.ndindex(dm.shape[:-1]):
        r = dm[idx][0]
        for e in dm[idx][1:]:
            r = smax(r, e)
        out[idx] = r
    if keepdim:
        out = np.expand_dims(out, dim[0])
    return T(out, dtype=FLOAT)


@op("aten.argmax.default")
def _argmax(a, dim=None, keepdim=False):
    if dim is None:
        flat = T(D(a).reshape(-1))
        return _argreduce_dim(flat, 0, False, lambda x, y: x > y)[1]
    return _argreduce_dim(a, dim, keepdim, lambda x, y: x > y)[1]


@op("aten.argmin.default")
def _argmin(a, dim=None, keepdim=False):
    if dim is None:
        flat = T(D(a).reshape(-1))
        return _argreduce_dim(flat, 0, False, lambda x, y: x < y)[1]
    return _argreduce_dim(a, dim, keepdim, lambda x, y: x < y)[1]


@op("aten.maximum.default")
def _maximum(a, b):
    a, b = _bc(a, b)
    return T(_ew(smax)(a, b), dtype=FLOAT)


@op("aten.minimum.default")
def _minimum(a, b):
    a, b = _bc(a, b)
    return T(_ew(smin)(a, b), dtype=FLOAT)


@op("aten.clamp.default", "aten.clamp.Tensor")
def _clamp(a, min=None, max=None):
    d = D(a)
    if min is not None:
        mn = _arr(min)
        d = _ew(smax)(d, mn)
    if max is not None:
        mx = _arr(max)
        d = _ew(smin)(d, mx)
    return T(d, dtype=FLOAT)


@op("aten.clamp_min.default")
def _clamp_min(a, min):
    return _clamp(a, min=min)


@op("aten.clamp_max.default")
def _clamp_max(a, max):
    return _clamp(a, max=max)


@op("aten.relu.default")
def _relu(a):
    return _clamp(a, min=0)


@op("aten.remainder.Scalar", "aten.remainder.Tensor")
def _remainder(a, b):
    """floor-mod on concrete values only"""
    a, b = _bc(a, b)

    def f(x, y):
        cx_, cy = (x.const() if isinstance(x, S) else None), (y.const() if isinstance(y, S) else None)
        if cx_ is None or cy is None:
            raise Inconclusive("remainder of symbolic values")
        import math
        return S(cx_ - cy * math.floor(cx_ / cy))
    return T(_ew(f)(a, b), dtype=FLOAT)


@op("aten.floor.default", "aten.trunc.default", "aten.ceil.default")
def _floor(a):
    raise Inconclusive("floor/trunc/ceil of a float tensor (only reached with symbolic values here)")


@op("aten.sort.default", "aten.sort.stable")
def _sort(a, *args, dim=-1, descending=False, stable=False):
    if args:
        # positional (dim, descending)
        dim = args[0]
        if len(args) > 1:
            descending = args[1]
    d = D(a)
    dim = dim % max(d.ndim, 1)
    dm = np.moveaxis(d, dim, -1)
    vals = np.empty(dm.shape, dtype=object)
    idxs = np.zeros(dm.shape, dtype=np.int64)
    for idx in np.ndindex(dm.shape[:-1]):
        row = list(dm[idx])
        order = list(range(len(row)))
        # insertion sort; every comparison is decided (forked) by the explorer
        for i in range(1, len(order)):
            j = i
            while j > 0:
                x, y = row[order[j - 1]], row[order[j]]
                swap = bool((x < y) if descending else (x > y))
                if not swap:
                    break
                order[j - 1], order[j] = order[j], order[j - 1]
                j -= 1
        for k, o in enumerate(order):
            vals[idx + (k,)] = row[o]
            idxs[idx + (k,)] = o
    vals = np.moveaxis(vals, -1, dim)
    idxs = np.moveaxis(idxs, -1, dim)
    return T(vals, dtype=a.dtype), torch.from_numpy(np.ascontiguousarray(idxs))


@op("aten.argsort.default", "aten.argsort.stable")
def _argsort(a, *args, dim=-1, descending=False, stable=False):
    return _sort(a, *args, dim=dim, descending=descending)[1]


@op("aten.searchsorted.Tensor")
def _searchsorted(seq, vals, out_int32=False, right=False, side=None, sorter=None):
    s = D(seq)
    v = D(vals)
    if side == "right":
        right = True
    assert s.shape[:-1] == v.shape[:-1] or s.ndim == 1, (s.shape, v.shape)
    out = np.zeros(v.shape, dtype=np.int64)
    for idx in np.ndindex(v.shape):
        row = s if s.ndim == 1 else s[idx[:-1]]
        n = len(row)
        k = 0
        # first position whose element is >= v (left) / > v (right); comparisons forked by the explorer
        while k < n:
            e = row[k]
            stop = bool((e > v[idx]) if right else (e >= v[idx]))
            if stop:
                break
            k += 1
        out[idx] = k
    t = torch.from_numpy(out)
    return t.to(torch.int32) if out_int32 else t


def _np_index(indices, d):
    idx = []
    for i in indices:
        if i is None:
            idx.append(slice(None))
        elif isinstance(i, SymTensor):
            di = i._d
            if i.dtype == torch.bool:
                out = np.zeros(di.shape, dtype=bool)
                for k in np.ndindex(di.shape):
                    out[k] = bool(di[k])   # forks when symbolic
                idx.append(out)
            else:
                raise Inconclusive("symbolic integer index")
        elif isinstance(i, torch.Tensor):
            idx.append(i.cpu().numpy())
        else:
            idx.append(i)
    return tuple(idx)


@op("aten.index.Tensor")
def _index(a, indices):
    d = D(a)
    return _keep(a, d[_np_index(indices, d)])


@op("aten.index_put_.default")
def _index_put_(self, indices, values, accumulate=False):
    v = _arr(values)
    if len(indices) == 1 and isinstance(indices[0], torch.Tensor) and indices[0].dtype == torch.bool:
        m = D(indices[0]) if isinstance(indices[0], SymTensor) else indices[0].cpu().numpy().astype(object)
        m = np.broadcast_to(m, self._d.shape[:m.ndim] + (1,) * 0) if m.shape != self._d.shape else m
        if v.size == 1 and m.shape == self._d.shape:
            vv = v.reshape(-1)[0]
            for idx in np.ndindex(self._d.shape):
                mi = m[idx]
                if not isinstance(mi, (bool, np.bool_)) and MASK_FORK[0]:
                    mi = bool(mi)      # decided (forked) by the explorer: keeps later expressions free of ite terms
                if isinstance(mi, (bool, np.bool_)):
                    if mi:
                        self._d[idx] = (self._d[idx] + vv) if accumulate else vv
                else:
                    self._d[idx] = ite(mi, (self._d[idx] + vv) if accumulate else vv, self._d[idx])
            return self
    idx = _np_index(indices, self._d)
    if accumulate:
        # np.add.at semantics
        tmp = self._d
        np.add.at(tmp, idx, np.broadcast_to(v, tmp[idx].shape))
    else:
        self._d[idx] = v if v.ndim else v.reshape(-1)[0]
    return self


@op("aten.index_put.default")
def _index_put(self, indices, values, accumulate=False):
    r = T(D(self).copy(), dtype=self.dtype)
    return _index_put_(r, indices, values, accumulate)


@op("aten.masked_fill_.Scalar", "aten.masked_fill_.Tensor")
def _masked_fill_(self, mask, v):
    m = D(mask) if isinstance(mask, SymTensor) else mask.cpu().numpy().astype(object)
    m = np.broadcast_to(m, self._d.shape)
    vv = _arr(v).reshape(-1)[0]
    for idx in np.ndindex(self._d.shape):
        self._d[idx] = ite(m[idx] if not isinstance(m[idx], np.bool_) else bool(m[idx]), vv, self._d[idx])
    return self


@op("aten.masked_fill.Scalar", "aten.masked_fill.Tensor")
def _masked_fill(a, mask, v):
    r = T(D(a).copy(), dtype=a.dtype)
    return _masked_fill_(r, mask, v)


@op("aten.gather.default")
def _gather(a, dim, index, sparse_grad=False):
    d = D(a)
    ix = index.cpu().numpy()
    out = np.empty(ix.shape, dtype=object)
    dim = dim % d.ndim
    for idx in np.ndindex(ix.shape):
        src = list(idx)
        src[dim] = int(ix[idx])
        out[idx] = d[tuple(src)]
    return _keep(a, out)


@op("aten.scatter_add.default")
def _scatter_add(a, dim, index, src):
    d = D(a).copy()
    s = D(src)
    ix = index.cpu().numpy()
    dim = dim % d.ndim
    for idx in np.ndindex(ix.shape):
        dst = list(idx)
        dst[dim] = int(ix[idx])
        d[tuple(dst)] = d[tuple(dst)] + s[idx]
    return _keep(a, d)


@op("aten.scatter.src", "aten.scatter.value")
def _scatter(a, dim, index, src):
    d = D(a).copy()
    s = _arr(src)
    ix = index.cpu().numpy()
    dim = dim % d.ndim
    for idx in np.ndindex(ix.shape):
        dst = list(idx)
        dst[dim] = int(ix[idx])
        d[tuple(dst)] = s[idx] if s.ndim else s.reshape(-1)[0]
    return _keep(a, d)


@op("aten.index_select.default")
def _index_select(a, dim, index):
    return _keep(a, np.take(D(a), index.cpu().numpy(), axis=dim))


@op("aten.index_add.default")
def _index_add(a, dim, index, src, alpha=1):
    d = D(a).copy()
    s = D(src)
    ix = index.cpu().numpy()
    dm = np.moveaxis(d, dim, 0)
    sm = np.moveaxis(s, dim, 0)
    for k, i in enumerate(ix):
        dm[int(i)] = dm[int(i)] + sm[k] * lift_elem(alpha)
    return _keep(a, d)


# backward helpers that autograd calls as aten ops
@op("aten.slice_backward.default")
def _slice_bw(g, input_sizes, dim, start, end, step):
    out = _full(tuple(input_sizes), _zero_for(g.dtype))
    sl = [slice(None)] * len(input_sizes)
    if end is not None and end > 2 ** 62:
        end = None
    sl[dim] = slice(start, end, step)
    out[tuple(sl)] = D(g)
    return T(out, dtype=g.dtype)


@op("aten.select_backward.default")
def _select_bw(g, input_sizes, dim, index):
    out = _full(tuple(input_sizes), _zero_for(g.dtype))
    sl = [slice(None)] * len(input_sizes)
    sl[dim] = index
    gd = D(g)
    out[tuple(sl)] = gd[()] if gd.ndim == 0 else gd
    return T(out, dtype=g.dtype)


@op("aten.diagonal_backward.default")
def _diagonal_bw(g, input_sizes, offset, dim1, dim2):
    out = _full(tuple(input_sizes), _zero_for(g.dtype))
    v = out.diagonal(offset=offset, axis1=dim1, axis2=dim2)
    v.setflags(write=True)
    v[...] = D(g)
    return T(out, dtype=g.dtype)


# ------------------------------------------------------------------------------------------ norms
def _fp_elem(e):
    from .core import fingerprint
    if isinstance(e, S):
        if e.isinf:
            return None
        a, b = fingerprint(e.n), fingerprint(e.d)
        if a is None or b in (None, 0):
            return None
        return a / b
    return None


def _norm2_of(vec):
    """2-norm of a list of real scalars, with a vector-level congruence memo: a vector that is (provably)
    identical, component by component, to an earlier one gets the same root variable.  This is what makes
    'the residual norm the loop tested' and 'the norm of the true residual of the returned tensor' one term."""
    ex = Explorer.cur
    plain = all(isinstance(e, S) for e in vec)
    if ex is None or not plain or not any(e.sym for e in vec):
        acc = None
        for e in vec:
            sq = C.lift(e).abs2() if isinstance(e, C) else e * e
            acc = sq if acc is None else acc + sq
        return ssqrt(acc if acc is not None else S(0))
    fps = [_fp_elem(e) for e in vec]
    memo = getattr(ex, "norm_memo", None)
    if memo is None or getattr(ex, "_norm_memo_path", None) is not ex.pc:
        memo = ex.norm_memo = []
        ex._norm_memo_path = ex.pc
    if all(f is not None for f in fps):
        for (pfps, pvec, pres) in memo:
            if len(pvec) != len(vec) or any(f is None for f in pfps):
                continue
            same = all(a == b for a, b in zip(fps, pfps))
            neg = all(a == -b for a, b in zip(fps, pfps))
            if not (same or neg):
                continue
            sign = 1 if same else -1
            ok = True
            for e, q in zip(vec, pvec):
                from .core import _zmul
                lhs = _zmul(e.n, q.d)
                rhs = _zmul(q.n, e.d)
                if sign < 0:
                    rhs = -rhs
                if not ex.identity(lhs, rhs, timeout_ms=15000):
                    ok = False
                    break
            if ok:
                ex.sqrt_hits += 1
                return pres
    acc = None
    for e in vec:
        sq = e * e
        acc = sq if acc is None else acc + sq
    res = ssqrt(acc)
    memo.append((fps, list(vec), res))
    return res


@op("aten.linalg_vector_norm.default")
def _vnorm(a, ord=2, dim=None, keepdim=False, dtype=None):
    d = D(a)
    if ord == float("inf"):
        ab = _ew1(abs)(d)
        t = T(ab)
        if dim is None:
            return _maxall(t)
        return _amax(t, dim, keepdim)
    if ord == 1:
        red = lambda vec: sum((abs(e) for e in vec[1:]), abs(vec[0])) if len(vec) else S(0)
    else:
        assert ord == 2, "norm order %r" % (ord,)
        red = _norm2_of
    if dim is None or (isinstance(dim, (list, tuple)) and len(dim) == 0):
        out = np.asarray(red(list(d.reshape(-1))), dtype=object)
        if keepdim:
            out = out.reshape((1,) * d.ndim)
        return T(out, dtype=FLOAT)
    if isinstance(dim, int):
        dim = [dim]
    dim = [x % d.ndim for x in dim]
    dm = np.moveaxis(d, dim, list(range(d.ndim - len(dim), d.ndim)))
    lead = dm.shape[:d.ndim - len(dim)]
    dm = dm.reshape(lead + (-1,))
    out = np.empty(lead, dtype=object)
    for idx in np.ndindex(lead):
        out[idx] = red(list(dm[idx]))
    if keepdim:
        for x in sorted(dim):
            out = np.expand_dims(out, x)
    return T(out, dtype=FLOAT)


# ------------------------------------------------------------------------------------------ dense kernels = contracts
def _zero_like_elem(e):
    return C(0) if isinstance(e, C) else S(0)


def _det(m):
    n = m.shape[0]
    if n == 1:
        return m[0, 0]
    if n == 2:
        return m[0, 0] * m[1, 1] - m[0, 1] * m[1, 0]
    r = None
    for j in range(n):
        minor = np.delete(np.delete(m, 0, axis=0), j, axis=1)
        term = m[0, j] * _det(minor)
        if j % 2:
            term = -term
        r = term if r is None else r + term
    return r


def _inv(m):
    """exact cofactor inverse; contract precondition det != 0 becomes a path assumption"""
    n = m.shape[0]
    det = _det(m)
    out = np.empty((n, n), dtype=object)
    for i in range(n):
        for j in range(n):
            if n > 1:
                minor = np.delete(np.delete(m, j, axis=0), i, axis=1)
                c = _det(minor)
            else:
                c = lift_elem(1)
            if (i + j) % 2:
                c = -c
            out[i, j] = c / det
    return out


def _singular_solve_2x2(a, b):
    """contract of a dense solve on an IDENTICALLY singular 2x2 system (the shifted solves (A - e_i M) g = -b of the
    eigen-backward): LAPACK returns some solution with an arbitrary, typically huge, component along the null vector.
    Returned here: a particular solution plus tau * null vector with a fresh symbol tau per column, after the solver has
    proved that the right-hand side is consistent.  Anything downstream must therefore hold for every tau."""
    ex = Explorer.cur
    if ex is None or a.shape != (2, 2):
        return None
    det = _det(a)
    if not isinstance(det, S):
        return None
    from .core import fingerprint, fresh_real
    concrete = not det.sym
    if concrete:
        if det.n != 0:
            return None
    else:
        fp = fingerprint(det.n)
        if fp is None or fp != 0 or not ex.identically_zero(det.n):
            return None
    r0 = a[0, 0] * a[0, 0] + a[0, 1] * a[0, 1]
    # use the first row when it is non-zero (decided by the explorer), otherwise the second
    row = 0 if bool(r0 != 0) else 1
    p, q = a[row, 0], a[row, 1]
    nrm = p * p + q * q
    out = np.empty(b.shape, dtype=object)
    other = 1 - row
    for j in range(b.shape[1]):
        y = b[row, j]
        xp0, xp1 = y * p / nrm, y * q / nrm
        # consistency of the other equation
        lhs = a[other, 0] * xp0 + a[other, 1] * xp1
        ok = (lhs == b[other, j])
        if not isinstance(ok, (bool, np.bool_)):
            if ex.prove(ok.e, kind="singular-consistency")[0] != "proved":
                raise Inconclusive("singular solve with a right-hand side not provably in the range")
        elif not ok:
            raise Inconclusive("singular solve with an inconsistent right-hand side")
        tau = S(0) if concrete else S(fresh_real("tau"))
        out[0, j] = xp0 - tau * q
        out[1, j] = xp1 + tau * p
    ex.assumption_notes.append("singular 2x2 solve: particular solution + tau * null vector")
    return out


def _solve_mats(a, b):
    """solve a x = b for one (n,n) a and (n,k) b"""
    n = a.shape[0]
    if n == 2:
        r = _singular_solve_2x2(a, b)
        if r is not None:
            return r
    if n == 3:
        # a CONSTANT exactly singular matrix: torch raises (LAPACK reports a zero pivot); a symbolic determinant is handled
        # by the division rule (den != 0 on the path, identically zero = harness error)
        d = (a[0, 0] * (a[1, 1] * a[2, 2] - a[1, 2] * a[2, 1]) - a[0, 1] * (a[1, 0] * a[2, 2] - a[1, 2] * a[2, 0])
             + a[0, 2] * (a[1, 0] * a[2, 1] - a[1, 1] * a[2, 0]))
        z = (d == 0)
        if isinstance(z, (bool, np.bool_)) and z:
            raise RuntimeError("torch.linalg.solve: The solver failed because the input matrix is singular.")
    if n <= 3:
        return _matmul(_inv(a), b)
    return _gauss_solve(a, b)


def _gauss_solve(a, b):
    """fraction-free-ish Gaussian elimination without pivoting search beyond the explorer's decisions"""
    n = a.shape[0]
    a = a.copy()
    b = b.copy()
    for c in range(n):
        # pivot: first row whose entry is not (decided) zero
        p = None
        for r in range(c, n):
            e = a[r, c]
            nz = e != 0
            if isinstance(nz, (bool, np.bool_)):
                if nz:
                    p = r
                    break
            else:
                if bool(nz):
                    p = r
                    break
        if p is None:
            raise PathAbort("singular matrix in solve (contract precondition)")
        if p != c:
            a[[c, p]] = a[[p, c]]
            b[[c, p]] = b[[p, c]]
        for r in range(c + 1, n):
            f = a[r, c] / a[c, c]
            for k in range(c, n):
                a[r, k] = a[r, k] - f * a[c, k]
            for j in range(b.shape[1]):
                b[r, j] = b[r, j] - f * b[c, j]
    x = np.empty(b.shape, dtype=object)
    for r in range(n - 1, -1, -1):
        for j in range(b.shape[1]):
            acc = b[r, j]
            for k in range(r + 1, n):
                acc = acc - a[r, k] * x[k, j]
            x[r, j] = acc / a[r, r]
    return x


SOLVE_HOOK = [None]   # harness-installed contract for singular solves: f(a, b) -> x or None


@op("aten._linalg_solve_ex.default", "aten.linalg_solve_ex.default")
def _solve_ex(A, B, left=True, check_errors=False):
    dt = _rd(A, B)
    a = D(A)
    b = D(B)
    assert left
    vec = (b.ndim == a.ndim - 1) and tuple(b.shape) == tuple(a.shape[:-1]) or b.ndim == 1
    if vec:
        b = b[..., None]
    bs = np.broadcast_shapes(a.shape[:-2], b.shape[:-2])
    a = np.broadcast_to(a, bs + a.shape[-2:])
    b = np.broadcast_to(b, bs + b.shape[-2:])
    out = np.empty(bs + b.shape[-2:], dtype=object)
    for idx in np.ndindex(bs):
        x = None
        if SOLVE_HOOK[0] is not None:
            x = SOLVE_HOOK[0](a[idx], b[idx])
        if x is None:
            x = _solve_mats(a[idx], b[idx])
        out[idx] = x
    if vec:
        out = out[..., 0]
    res = T(out, dtype=dt)
    LU = T(a.copy(), dtype=dt)
    piv = torch.zeros(bs + (a.shape[-1],), dtype=torch.int32)
    info = torch.zeros(bs, dtype=torch.int32)
    return res, LU, piv, info


@op("aten.linalg_lu_solve.default")
def _lu_solve(LU, piv, B, left=True, adjoint=False):
    a = D(LU)
    if adjoint:
        a = np.swapaxes(a, -1, -2)
        if LU.dtype.is_complex:
            a = _ew1(lambda x: x.conjugate())(a)
    if not left:
        # X A = B  <=>  A^T X^T = B^T
        r = _solve_ex(T(np.swapaxes(a, -1, -2), dtype=LU.dtype), T(np.swapaxes(D(B), -1, -2), dtype=B.dtype))[0]
        return T(np.swapaxes(r._d, -1, -2), dtype=r.dtype)
    return _solve_ex(T(a, dtype=LU.dtype), B)[0]


@op("aten.linalg_inv_ex.default")
def _inv_ex(A, check_errors=False):
    a = D(A)
    out = np.empty(a.shape, dtype=object)
    n = a.shape[-1]
    eye = np.empty((n, n), dtype=object)
    for i in range(n):
        for j in range(n):
            eye[i, j] = lift_elem(1 if i == j else 0)
    for idx in np.ndindex(a.shape[:-2]):
        out[idx] = _solve_mats(a[idx], eye) if n > 3 else _inv(a[idx])
    return T(out, dtype=A.dtype), torch.zeros(a.shape[:-2], dtype=torch.int32)


@op("aten._linalg_det.default")
def _linalg_det(A):
    a = D(A)
    out = np.empty(a.shape[:-2], dtype=object)
    for idx in np.ndindex(a.shape[:-2]):
        out[idx] = _det(a[idx])
    return T(out, dtype=A.dtype), T(a.copy(), dtype=A.dtype), torch.zeros(a.shape[:-1], dtype=torch.int32)


@op("aten._linalg_check_errors.default")
def _lce(info, api, is_matrix=False):
    return None


@op("aten.linalg_cholesky_ex.default")
def _chol(A, upper=False, check_errors=False):
    a = D(A)
    out = np.empty(a.shape, dtype=object)
    n = a.shape[-1]
    cplx = A.dtype.is_complex
    zero = C(0) if cplx else S(0)
    for idx in np.ndindex(a.shape[:-2]):
        m = a[idx]
        ex = Explorer.cur
        pl = ex.lookup_plant("cholesky", m) if ex is not None and ex.plants else None
        if pl is not None:
            L = pl
        else:
            L = _full((n, n), zero)
            for i in range(n):
                for j in range(i + 1):
                    s = m[i, j]
                    for k in range(j):
                        s = s - L[i, k] * (L[j, k].conjugate() if cplx else L[j, k])
                    if i == j:
                        sr = s.re if cplx else s
                        if ex is not None:
                            ex.assume(_b(sr > 0) if not isinstance(sr > 0, (bool, np.bool_)) else bool(sr > 0),
                                      kind="contract", note="cholesky: positive definite input")
                        rt = ssqrt(sr)
                        L[i, j] = C(rt) if cplx else rt
                    else:
                        L[i, j] = s / L[j, j]
        if upper:
            L = L.T
            if cplx:
                L = _ew1(lambda x: x.conjugate())(L)
        out[idx] = L
    return T(out, dtype=A.dtype), torch.zeros(a.shape[:-2], dtype=torch.int32)


@op("aten.linalg_solve_triangular.default")
def _solve_tri(A, B, upper, left=True, unitriangular=False):
    a = D(A)
    a = _triu(T(a, dtype=A.dtype))._d if upper else _tril(T(a, dtype=A.dtype))._d
    if unitriangular:
        a = a.copy()
        for i in range(a.shape[-1]):
            a[..., i, i] = lift_elem(1)
    if left:
        return _solve_ex(T(a, dtype=A.dtype), B)[0]
    r = _solve_ex(T(np.swapaxes(a, -1, -2), dtype=A.dtype), T(np.swapaxes(D(B), -1, -2), dtype=B.dtype))[0]
    return T(np.swapaxes(r._d, -1, -2), dtype=r.dtype)


def _eigh2_closed(m):
    """closed-form symmetric 2x2 eigendecomposition with root variables (fallback when nothing is planted)"""
    a, b, c = m[0, 0], m[0, 1], m[1, 1]
    if isinstance(a, C):
        raise Inconclusive("closed-form eigh for complex input")
    tr = a + c
    diff = a - c
    disc = ssqrt(diff * diff + 4 * b * b)
    e1 = (tr - disc) / 2
    e2 = (tr + disc) / 2
    ex = Explorer.cur
    # eigenvectors: (b, e - a) normalised, valid when b != 0; diagonal input handled by a fork
    if bool(b == 0):
        if bool(a <= c):
            V = np.array([[S(1), S(0)], [S(0), S(1)]], dtype=object)
            return np.array([a, c], dtype=object), V
        V = np.array([[S(0), S(1)], [S(1), S(0)]], dtype=object)
        return np.array([c, a], dtype=object), V
    v1 = np.array([b, e1 - a], dtype=object)
    v2 = np.array([b, e2 - a], dtype=object)
    n1 = ssqrt(v1[0] * v1[0] + v1[1] * v1[1])
    n2 = ssqrt(v2[0] * v2[0] + v2[1] * v2[1])
    V = np.array([[v1[0] / n1, v2[0] / n2], [v1[1] / n1, v2[1] / n2]], dtype=object)
    return np.array([e1, e2], dtype=object), V


@op("aten._linalg_eigh.default", "aten.linalg_eigh.default")
def _eigh(A, UPLO="L", compute_v=True):
    a = D(A)
    bs = a.shape[:-2]
    n = a.shape[-1]
    ev = np.empty(bs + (n,), dtype=object)
    V = np.empty(bs + (n, n), dtype=object)
    ex = Explorer.cur
    for idx in np.ndindex(bs):
        m = a[idx]
        pl = ex.lookup_plant("eigh", m) if ex is not None and ex.plants else None
        if pl is None:
            if n == 1:
                pl = (np.array([m[0, 0]], dtype=object), np.array([[lift_elem(1)]], dtype=object))
            elif n == 2:
                pl = _eigh2_closed(m)
            else:
                raise Inconclusive("eigh of a %dx%d matrix without a planted factorisation" % (n, n))
        e, v = pl
        ev[idx] = _ew1(lambda x: x.re if isinstance(x, C) else x)(np.asarray(e, dtype=object))
        V[idx] = v
    return T(ev, dtype=FLOAT), T(V, dtype=A.dtype)


@op("aten.linalg_lstsq.default")
def _lstsq(A, B, rcond=None, driver=None):
    a = D(A)
    b = D(B)
    vec = (b.ndim == a.ndim - 1) and tuple(b.shape) == tuple(a.shape[:-1])
    if vec:
        b = b[..., None]
    bs = np.broadcast_shapes(a.shape[:-2], b.shape[:-2])
    a = np.broadcast_to(a, bs + a.shape[-2:])
    b = np.broadcast_to(b, bs + b.shape[-2:])
    m, n = a.shape[-2:]
    k = b.shape[-1]
    out = np.empty(bs + (n, k), dtype=object)
    for idx in np.ndindex(bs):
        if n == 0:
            continue
        at = a[idx].T
        out[idx] = _solve_mats(_matmul(at, a[idx]), _matmul(at, b[idx]))
    if vec:
        out = out[..., 0]
    z = torch.zeros(0)
    return T(out, dtype=A.dtype), z, torch.zeros(bs, dtype=torch.int64), z


@op("aten.linalg_qr.default")
def _qr(A, mode="reduced"):
    a = D(A)
    assert a.ndim == 2 and mode == "reduced"
    m, n = a.shape
    Q = np.empty((m, n), dtype=object)
    R = _full((n, n), S(0))
    for j in range(n):
        v = a[:, j].copy()
        for i in range(j):
            R[i, j] = np.dot(Q[:, i], a[:, j])
            v = v - R[i, j] * Q[:, i]
        R[j, j] = ssqrt(np.dot(v, v))
        Q[:, j] = v / R[j, j]
    return T(Q, dtype=A.dtype), T(R, dtype=A.dtype)


for _nm in ("aten.rand.default", "aten.rand_like.default", "aten.uniform_.default"):
    OPS[_nm] = _mk_rand("rand")
for _nm in ("aten.randn.default", "aten.randn_like.default", "aten.normal_.default"):
    OPS[_nm] = _mk_rand("randn")


def fresh(name, shape, complex_=False):
    """object array of fresh symbolic reals (or complex pairs) named name_i_j"""
    shape = tuple(shape)
    a = np.empty(shape, dtype=object)
    for idx in np.ndindex(*shape):
        suffix = "".join("_%d" % i for i in idx)
        if complex_:
            a[idx] = C(S(z3.Real(name + suffix + "r")), S(z3.Real(name + suffix + "i")))
        else:
            a[idx] = S(z3.Real(name + suffix))
    return a
