from .core import (S, SB, C, Explorer, PathAbort, Inconclusive, HarnessError, ite, smax, smin, ssqrt, uapply,
                   rat, _r, _b, band, bor, bnot, model_value, fresh_real)
from .ops import SymTensor, SymMode, T, D, fresh, OPS, USED_OPS, from_real, lift_elem
