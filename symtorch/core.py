"""Symbolic scalars and the path explorer.

S   real scalar kept as a formal quotient num/den of z3 real polynomials (or exact Fractions)
C   complex scalar (pair of S)
SB  symbolic boolean; bool(SB) asks the explorer (forks the path)
Explorer  depth-first re-execution over branch decisions; one-shot z3 solvers per query
"""
import itertools
import math
import os
import sys
import time
from fractions import Fraction

import numpy as np
import z3

SEED = int(os.environ.get("VERIF_SEED", "0") or 0)
TRACE = bool(os.environ.get("SYMTORCH_TRACE"))


def _isz3(x):
    return isinstance(x, z3.ExprRef)


class PathAbort(BaseException):
    """the current path is infeasible / cut (BaseException: must not be swallowed by `except Exception`)"""


class Inconclusive(BaseException):
    """the engine cannot continue soundly on this path (unsupported op, forced concretisation, ...)"""


class HarnessError(Exception):
    pass


def rat(x):
    """float -> exact rational.  The nearest rational with denominator <= 10**6 when it lies within
    one ulp of the float (so that 1/3. means 1/3 and 1e-6 means 10**-6); otherwise the exact binary value."""
    f = Fraction(float(x))
    if f.denominator == 1:
        return f
    q = f.limit_denominator(10 ** 6)
    if q == f or (f != 0 and abs(q - f) <= abs(f) * Fraction(1, 2 ** 52)):
        return q
    # small magnitudes such as 1e-8, 1e-12: try a pure power-of-ten / small-numerator reading
    if f != 0:
        inv = (1 / f).limit_denominator(10 ** 6)
        if inv != 0 and abs(1 / inv - f) <= abs(f) * Fraction(1, 2 ** 52):
            return 1 / inv
    return f


def _c(x):
    """canonical concrete value"""
    if isinstance(x, (bool, np.bool_)):
        return Fraction(int(x))
    if isinstance(x, (int, np.integer)):
        return Fraction(int(x))
    if isinstance(x, (float, np.floating)):
        return rat(x)
    return x


def _r(x):
    """to a z3 real term"""
    if isinstance(x, S):
        x = x.v
    if _isz3(x):
        return x
    if isinstance(x, Fraction):
        return z3.RealVal(str(x))
    if isinstance(x, (int, np.integer)):
        return z3.RealVal(int(x))
    if isinstance(x, (float, np.floating)):
        return z3.RealVal(str(rat(x)))
    raise TypeError(type(x))


def _b(x):
    if isinstance(x, SB):
        return x.e
    if isinstance(x, (bool, np.bool_)):
        return z3.BoolVal(bool(x))
    raise TypeError("not a boolean: %r" % type(x))


def _zmul(a, b):
    if isinstance(a, Fraction) and isinstance(b, Fraction):
        return a * b
    if isinstance(a, Fraction):
        if a == 0:
            return Fraction(0)
        if a == 1:
            return b
    if isinstance(b, Fraction):
        if b == 0:
            return Fraction(0)
        if b == 1:
            return a
    return _r(a) * _r(b)


def _zadd(a, b):
    if isinstance(a, Fraction) and isinstance(b, Fraction):
        return a + b
    if isinstance(a, Fraction) and a == 0:
        return b
    if isinstance(b, Fraction) and b == 0:
        return a
    r = _r(a) + _r(b)
    if SIMPLIFY_SUMS[0]:
        r = z3.simplify(r)
        if z3.is_rational_value(r):
            return Fraction(r.numerator_as_long(), r.denominator_as_long())
    return r


_FP_CACHE = {}
SIMPLIFY_SUMS = [True]     # light z3 rewriting of sums (cancels x + g - x); no expansion of products


def _fp_value(name):
    """deterministic pseudo-random rational for a symbol name (numeric fingerprints, Schwartz-Zippel style)"""
    import hashlib
    h = int(hashlib.sha1(name.encode()).hexdigest()[:12], 16)
    return Fraction(1 + h % 9973, 1 + (h // 9973) % 997)


def fingerprint(e):
    """value of the term at a fixed pseudo-random rational point (a cheap filter only: a solver query still
    decides every identity that the fingerprints do not exclude); None when it cannot be evaluated"""
    if isinstance(e, Fraction):
        return e
    if not _isz3(e):
        return None
    try:
        subs = []
        seen = set()
        stack = [e]
        visited = set()
        while stack:
            t = stack.pop()
            tid = t.get_id()
            if tid in visited:
                continue
            visited.add(tid)
            if z3.is_const(t):
                if t.decl().kind() == z3.Z3_OP_UNINTERPRETED:
                    nm = t.decl().name()
                    if nm not in seen:
                        seen.add(nm)
                        if z3.is_real(t):
                            subs.append((t, z3.RealVal(str(_fp_value(nm)))))
                        elif z3.is_bool(t):
                            subs.append((t, z3.BoolVal(_fp_value(nm).numerator % 2 == 0)))
            else:
                stack.extend(t.children())
        v = z3.simplify(z3.substitute(e, *subs)) if subs else z3.simplify(e)
        if z3.is_rational_value(v):
            return Fraction(v.numerator_as_long(), v.denominator_as_long())
        return None
    except z3.Z3Exception:
        return None


def _zsame(a, b):
    if isinstance(a, Fraction) and isinstance(b, Fraction):
        return a == b
    if _isz3(a) and _isz3(b):
        return a.eq(b)
    return False


# ------------------------------------------------------------------------------------------ booleans
class SB:
    __slots__ = ("e",)

    def __init__(self, e):
        self.e = e

    def __bool__(self):
        ex = Explorer.cur
        if ex is None:
            s = z3.simplify(self.e)
            if z3.is_true(s):
                return True
            if z3.is_false(s):
                return False
            raise Inconclusive("bool(SB) outside an exploration")
        return ex.decide(self.e)

    def __and__(self, o):
        if isinstance(o, (bool, np.bool_)):
            return self if o else False
        return SB(z3.And(self.e, _b(o)))
    __rand__ = __and__

    def __or__(self, o):
        if isinstance(o, (bool, np.bool_)):
            return True if o else self
        return SB(z3.Or(self.e, _b(o)))
    __ror__ = __or__

    def __invert__(self):
        return SB(z3.Not(self.e))

    def __eq__(self, o):
        return SB(self.e == _b(o))

    def __ne__(self, o):
        return SB(self.e != _b(o))
    __hash__ = None

    def __repr__(self):
        return "SB(%s)" % self.e


def band(x, y):
    if isinstance(x, (bool, np.bool_)):
        return y if x else False
    if isinstance(y, (bool, np.bool_)):
        return x if y else False
    return x & y


def bor(x, y):
    if isinstance(x, (bool, np.bool_)):
        return True if x else y
    if isinstance(y, (bool, np.bool_)):
        return True if y else x
    return x | y


def bnot(x):
    if isinstance(x, (bool, np.bool_)):
        return not x
    return ~x


# ------------------------------------------------------------------------------------------ reals
class S:
    """real scalar n/d.  d == Fraction(0) encodes sign(n)*infinity (NaN when n == 0)."""
    __slots__ = ("n", "d", "rt", "sel")
    __array_priority__ = 1000

    def __init__(self, n, d=Fraction(1)):
        # rt: (k, rn, rd) when the value is known to be k*sqrt(rn/rd) (k a Fraction): lets comparisons between
        #     norms and tolerances be stated on the radicands, without the root variable
        # sel: (cond, a, b) when the value is ite(cond, a, b): comparisons distribute over it
        self.rt = None
        self.sel = None
        if isinstance(n, S):
            self.n, self.d, self.rt, self.sel = n.n, n.d, n.rt, n.sel
            return
        if isinstance(n, (float, np.floating)):
            if math.isinf(n):
                self.n, self.d = Fraction(1 if n > 0 else -1), Fraction(0)
                return
            if math.isnan(n):
                self.n, self.d = Fraction(0), Fraction(0)
                return
        n = _c(n)
        d = _c(d)
        if not isinstance(n, Fraction) and not _isz3(n):
            raise TypeError("S from %r" % type(n))
        if isinstance(d, Fraction) and d != 1 and d != 0:
            if isinstance(n, Fraction):
                n = n / d
            else:
                n = _zmul(Fraction(1) / d, n)
            d = Fraction(1)
        self.n, self.d = n, d

    # -- inspection
    @property
    def sym(self):
        return _isz3(self.n) or _isz3(self.d)

    @property
    def isinf(self):
        return isinstance(self.d, Fraction) and self.d == 0

    @property
    def v(self):
        if self.isinf:
            raise Inconclusive("infinite value used as a term")
        if not self.sym:
            return self.n
        if isinstance(self.d, Fraction):
            return _r(self.n)
        return _r(self.n) / _r(self.d)

    def const(self):
        """Fraction if concrete else None"""
        if not self.sym and not self.isinf:
            return self.n
        return None

    # -- arithmetic
    def _other(self, o):
        if isinstance(o, S):
            return o
        if isinstance(o, (int, float, Fraction, np.integer, np.floating, bool, np.bool_)):
            return S(o)
        return None

    def __add__(self, o):
        o = self._other(o)
        if o is None:
            return NotImplemented
        if self.isinf:
            return self
        if o.isinf:
            return o
        if _zsame(self.d, o.d):
            return S(_zadd(self.n, o.n), self.d)
        return S(_zadd(_zmul(self.n, o.d), _zmul(o.n, self.d)), _zmul(self.d, o.d))
    __radd__ = __add__

    def __neg__(self):
        r = S(-self.n, self.d)
        if self.rt is not None:
            r.rt = (-self.rt[0], self.rt[1], self.rt[2])
        return r

    def __pos__(self):
        return self

    def __sub__(self, o):
        o = self._other(o)
        if o is None:
            return NotImplemented
        return self + (-o)

    def __rsub__(self, o):
        o = self._other(o)
        if o is None:
            return NotImplemented
        return o + (-self)

    def __mul__(self, o):
        o = self._other(o)
        if o is None:
            return NotImplemented
        r = S(_zmul(self.n, o.n), _zmul(self.d, o.d))
        if self.rt is not None and not o.sym and not o.isinf:
            r.rt = (self.rt[0] * o.n, self.rt[1], self.rt[2])
        elif o.rt is not None and not self.sym and not self.isinf:
            r.rt = (o.rt[0] * self.n, o.rt[1], o.rt[2])
        return r
    __rmul__ = __mul__

    def __truediv__(self, o):
        o = self._other(o)
        if o is None:
            return NotImplemented
        if o.isinf:
            return S(0)
        if not o.sym:
            if o.n == 0:
                # x/0: +-inf (nan for 0/0)
                return S(self.n, Fraction(0))
            r = S(_zmul(self.n, Fraction(1) / o.n), self.d)
            if self.rt is not None:
                r.rt = (self.rt[0] / o.n, self.rt[1], self.rt[2])
            return r
        ex = Explorer.cur
        if ex is not None:
            ex.assume_nonzero(o.n)
        return S(_zmul(self.n, o.d), _zmul(self.d, o.n))

    def __rtruediv__(self, o):
        o = self._other(o)
        if o is None:
            return NotImplemented
        return o / self

    def __pow__(self, k):
        if isinstance(k, S):
            kc = k.const()
            if kc is None:
                raise Inconclusive("symbolic exponent")
            k = kc
        k = _c(k)
        if isinstance(k, Fraction) and k.denominator == 1:
            k = int(k)
            if k >= 0:
                r = S(1)
                for _ in range(k):
                    r = r * self
                return r
            return S(1) / (self ** (-k))
        if isinstance(k, Fraction) and k == Fraction(1, 2):
            return ssqrt(self)
        if isinstance(k, Fraction) and k == Fraction(-1, 2):
            return S(1) / ssqrt(self)
        return upow(self, k)

    # -- comparisons (denominators cleared)
    def _rootform(self):
        if self.rt is not None:
            return self.rt
        c = self.const()
        if c is not None:
            return (c, Fraction(1), Fraction(1))
        return None

    def _cmp(self, o, kind):
        o = self._other(o)
        if o is None:
            return NotImplemented
        if self.isinf or o.isinf:
            return _cmp_inf(self, o, kind)
        if self.sel is not None:
            c, a, b = self.sel
            return ite(c, a._cmp(o, kind), b._cmp(o, kind))
        if o.sel is not None:
            c, a, b = o.sel
            return ite(c, self._cmp(a, kind), self._cmp(b, kind))
        lemma = None
        if (self.rt is not None or o.rt is not None) and Explorer.cur is not None:
            ra, rb = self._rootform(), o._rootform()
            if ra is not None and rb is not None:
                (k1, n1, d1), (k2, n2, d2) = ra, rb
                if k1 >= 0 and k2 >= 0:
                    # both sides non-negative: the same comparison on the squares (radicands are >= 0 by
                    # construction).  Added as a lemma next to the root-variable form, so that chains of norm
                    # comparisons stay linear while comparisons with tolerances do not need the root definition.
                    lemma = S(_zmul(n1, k1 * k1), d1)._cmp(S(_zmul(n2, k2 * k2), d2), kind)
                elif k1 < 0 and k2 < 0:
                    flip = {"lt": "gt", "le": "ge", "gt": "lt", "ge": "le", "eq": "eq", "ne": "ne"}[kind]
                    lemma = S(_zmul(n1, k1 * k1), d1)._cmp(S(_zmul(n2, k2 * k2), d2), flip)
        if not self.sym and not o.sym:
            a, b = self.n, o.n
            return {"lt": a < b, "le": a <= b, "gt": a > b, "ge": a >= b, "eq": a == b, "ne": a != b}[kind]
        if _zsame(self.n, o.n) and _zsame(self.d, o.d):
            # syntactically the same term
            return kind in ("le", "ge", "eq")
        r = self - o
        n, d = r.n, r.d
        if isinstance(d, Fraction):
            t = _r(n)
            nn = t
        else:
            t = _r(n) * _r(d)  # same sign as n/d (d != 0 is a path assumption)
            nn = _r(n)
        if kind == "lt":
            g = SB(t < 0)
        elif kind == "le":
            g = SB(t <= 0)
        elif kind == "gt":
            g = SB(t > 0)
        elif kind == "ge":
            g = SB(t >= 0)
        elif kind == "eq":
            g = SB(nn == 0)
        else:
            g = SB(nn != 0)
        if lemma is not None:
            Explorer.cur.lemma(g.e == _b(lemma))
        return g

    def __lt__(self, o):
        return self._cmp(o, "lt")

    def __le__(self, o):
        return self._cmp(o, "le")

    def __gt__(self, o):
        return self._cmp(o, "gt")

    def __ge__(self, o):
        return self._cmp(o, "ge")

    def __eq__(self, o):
        return self._cmp(o, "eq")

    def __ne__(self, o):
        return self._cmp(o, "ne")
    __hash__ = None

    def __abs__(self):
        if self.rt is not None and self.rt[0] >= 0:
            return self
        if self.isinf:
            return S(_abs_raw(self.n), Fraction(0))
        if not self.sym:
            return S(abs(self.n))
        return ite(self >= 0, self, -self)

    def conjugate(self):
        return self

    conj = conjugate

    @property
    def real(self):
        return self

    @property
    def imag(self):
        return S(0)

    def __float__(self):
        if self.isinf:
            return float("inf") * float(self.n) if not _isz3(self.n) else float("nan")
        if self.sym:
            ex = Explorer.cur
            if ex is not None:
                f = sys._getframe(1)
                while f is not None and ("/symtorch/" in f.f_code.co_filename or "/site-packages/" in f.f_code.co_filename):
                    f = f.f_back
                loc = "%s:%d" % (f.f_code.co_filename, f.f_lineno) if f is not None else "?"
                ex.concretized.append(loc)
            return float("nan")
        return float(self.n)

    def __int__(self):
        c = self.const()
        if c is None:
            raise Inconclusive("int() of a symbolic scalar")
        return int(c)

    def __index__(self):
        c = self.const()
        if c is None or c.denominator != 1:
            raise Inconclusive("index from a symbolic scalar")
        return int(c)

    def __bool__(self):
        return bool(self != 0)

    def __repr__(self):
        if self.isinf:
            return "inf*(%s)" % (self.n,)
        return str(self.v)

    def __format__(self, spec):
        return repr(self)


def _install_tensor_interop(cls):
    """S <op> torch.Tensor: torch's argument parser rejects foreign scalars before __torch_function__ is
    consulted, so the scalar side lifts itself to a 0-d SymTensor"""
    import operator as _op
    table = {"__add__": _op.add, "__radd__": lambda a, b: _op.add(b, a), "__sub__": _op.sub,
             "__rsub__": lambda a, b: _op.sub(b, a), "__mul__": _op.mul, "__rmul__": lambda a, b: _op.mul(b, a),
             "__truediv__": _op.truediv, "__rtruediv__": lambda a, b: _op.truediv(b, a),
             "__lt__": _op.lt, "__le__": _op.le, "__gt__": _op.gt, "__ge__": _op.ge, "__eq__": _op.eq, "__ne__": _op.ne}
    for name, f in table.items():
        orig = getattr(cls, name, None)
        if orig is None:
            continue

        def mk(orig, f):
            def g(self, o):
                if type(o).__module__.startswith("torch") or type(o).__name__ == "SymTensor":
                    import torch
                    if isinstance(o, torch.Tensor):
                        from .ops import T
                        import numpy as _np
                        return f(T(_np.asarray(self, dtype=object)), o)
                return orig(self, o)
            return g
        setattr(cls, name, mk(orig, f))


def _abs_raw(n):
    if isinstance(n, Fraction):
        return abs(n)
    return z3.If(n >= 0, n, -n)


def _cmp_inf(a, o, kind):
    """comparisons where one side is (sign(n)*inf)"""
    if a.isinf and o.isinf:
        raise Inconclusive("inf compared with inf")
    if o.isinf:
        n = o.n  # a ? sign(n)*inf
        pos = (n > 0) if isinstance(n, Fraction) else SB(n > 0)
        neg = (n < 0) if isinstance(n, Fraction) else SB(n < 0)
        if kind in ("lt", "le"):
            return pos
        if kind in ("gt", "ge"):
            return neg
        if kind == "eq":
            return False
        return True
    n = a.n
    pos = (n > 0) if isinstance(n, Fraction) else SB(n > 0)
    neg = (n < 0) if isinstance(n, Fraction) else SB(n < 0)
    if kind in ("lt", "le"):
        return neg
    if kind in ("gt", "ge"):
        return pos
    if kind == "eq":
        return False
    return True


def ite(c, a, b):
    if isinstance(c, (bool, np.bool_)):
        return a if c else b
    if isinstance(a, (bool, np.bool_, SB)) or isinstance(b, (bool, np.bool_, SB)):
        return SB(z3.If(_b(c), _b(a), _b(b)))
    if isinstance(a, C) or isinstance(b, C):
        a = C.lift(a)
        b = C.lift(b)
        return C(ite(c, a.re, b.re), ite(c, a.im, b.im))
    if not isinstance(a, (S, int, float, Fraction, np.number)) or not isinstance(b, (S, int, float, Fraction, np.number)):
        # other scalar kinds (jets) provide their own selection
        f = getattr(a, "_ite", None) or getattr(b, "_ite", None)
        if f is None:
            raise TypeError("ite on %r/%r" % (type(a), type(b)))
        return type(a if hasattr(a, "_ite") else b)._ite(c, a, b)
    a = S(a)
    b = S(b)
    if a.isinf or b.isinf:
        raise Inconclusive("ite over infinite values")
    if _zsame(a.n, b.n) and _zsame(a.d, b.d):
        return a
    if _zsame(a.d, b.d):
        r = S(z3.If(_b(c), _r(a.n), _r(b.n)), a.d)
    else:
        r = S(z3.If(_b(c), _r(a.n), _r(b.n)), z3.If(_b(c), _r(a.d), _r(b.d)))
    if a.rt is not None or b.rt is not None or a.sel is not None or b.sel is not None:
        r.sel = (c, a, b)
    return r


def smax(a, b):
    return ite(a >= b, a, b)


def smin(a, b):
    return ite(a <= b, a, b)


_ctr = itertools.count()
CONCRETE_SQRT = [False]   # shim-validation mode: irrational roots of concrete values as rounded floats


def fresh_real(prefix):
    return z3.Real("%s!%d" % (prefix, next(_ctr)))


def ssqrt(x):
    if isinstance(x, C):
        raise Inconclusive("sqrt of a complex scalar")
    x = S(x)
    if x.isinf:
        return x
    if not x.sym:
        if x.n == 0:
            return S(0)
        if x.n > 0:
            r = Fraction(math.isqrt(x.n.numerator), math.isqrt(x.n.denominator))
            if r * r == x.n:
                return S(r)
        if x.n > 0 and CONCRETE_SQRT[0]:
            return S(Fraction(math.sqrt(x.n)))
    ex = Explorer.cur
    if ex is None:
        raise Inconclusive("sqrt outside exploration")
    if any(k == "sqrt" for k, _i, _o in ex.plants):
        pl = ex.lookup_plant("sqrt", np.asarray([x], dtype=object))
        if pl is not None:
            if isinstance(pl, np.ndarray):
                pl = pl.reshape(-1)[0]
            return pl
    # congruence memo: the same radicand gives the same root variable
    for (pn, pd, pv, _fp) in ex.sqrts:
        if _zsame(pn, x.n) and _zsame(pd, x.d):
            ex.sqrt_hits += 1
            return pv
    fn_, fd_ = fingerprint(x.n), fingerprint(x.d)
    fpx = (fn_ / fd_) if (fn_ is not None and fd_ not in (None, 0)) else None
    for (pn, pd, pv, fpp) in ex.sqrts:
        if fpx is not None and fpp is not None and fpx != fpp:
            continue
        if ex.identity(_zmul(x.n, pd), _zmul(pn, x.d)):
            ex.sqrt_hits += 1
            return pv
    s = fresh_real("sqrt")
    rs = S(s)
    rs.rt = (Fraction(1), x.n, x.d)
    ex.sqrts.append((x.n, x.d, rs, fpx))
    # s = sqrt(n/d)  <=>  s >= 0 and s^2 * d == n    (definition; dropped by the linear abstraction)
    ex.assume(s >= 0, kind="root-sign")
    ex.assume(s * s * _r(x.d) == _r(x.n), kind="root-def")
    return rs


_UF = {}


def ufun(name, arity=1):
    key = (name, arity)
    if key not in _UF:
        _UF[key] = z3.Function(name, *([z3.RealSort()] * (arity + 1)))
    return _UF[key]


def uapply(name, *args):
    """uninterpreted real function applied to S arguments"""
    ex = Explorer.cur
    if ex is not None:
        ex.uses_uf = True
    f = ufun(name, len(args))
    return S(f(*[_r(S(a)) for a in args]))


def upow(x, k):
    """non-integer power: uninterpreted, positive for positive base"""
    x = S(x)
    if not x.sym and x.n >= 0:
        v = float(x.n) ** float(k)
        return S(rat(v))
    r = uapply("pow_%s" % str(k).replace("/", "_").replace("-", "m"), x)
    ex = Explorer.cur
    if ex is not None:
        ex.assume(z3.Implies(_r(x) > 0, _r(r) > 0), kind="stub")
    return r


# ------------------------------------------------------------------------------------------ complex
class C:
    __slots__ = ("re", "im")
    __array_priority__ = 2000

    def __init__(self, re, im=0):
        self.re = S(re)
        self.im = S(im)

    @staticmethod
    def lift(x):
        if isinstance(x, C):
            return x
        if isinstance(x, (complex, np.complexfloating)):
            return C(S(x.real), S(x.imag))
        return C(S(x), S(0))

    @staticmethod
    def _ok(o):
        return isinstance(o, (C, S, int, float, complex, Fraction, np.number, bool, np.bool_))

    @property
    def sym(self):
        return self.re.sym or self.im.sym

    def __add__(self, o):
        if not C._ok(o):
            return NotImplemented
        o = C.lift(o)
        return C(self.re + o.re, self.im + o.im)
    __radd__ = __add__

    def __neg__(self):
        return C(-self.re, -self.im)

    def __sub__(self, o):
        if not C._ok(o):
            return NotImplemented
        return self + (-C.lift(o))

    def __rsub__(self, o):
        if not C._ok(o):
            return NotImplemented
        return C.lift(o) + (-self)

    def __mul__(self, o):
        if not C._ok(o):
            return NotImplemented
        if isinstance(o, (S, int, float, Fraction)) or (isinstance(o, np.number) and not isinstance(o, np.complexfloating)):
            o = S(o)
            return C(self.re * o, self.im * o)
        o = C.lift(o)
        return C(self.re * o.re - self.im * o.im, self.re * o.im + self.im * o.re)
    __rmul__ = __mul__

    def __truediv__(self, o):
        if not C._ok(o):
            return NotImplemented
        if isinstance(o, (S, int, float, Fraction)) or (isinstance(o, np.number) and not isinstance(o, np.complexfloating)):
            o = S(o)
            return C(self.re / o, self.im / o)
        o = C.lift(o)
        den = o.re * o.re + o.im * o.im
        num = self * o.conjugate()
        return C(num.re / den, num.im / den)

    def __rtruediv__(self, o):
        if not C._ok(o):
            return NotImplemented
        return C.lift(o) / self

    def __pow__(self, k):
        kc = S(k).const() if not isinstance(k, (C, complex)) else None
        if kc is None or kc.denominator != 1:
            raise Inconclusive("complex power")
        k = int(kc)
        if k < 0:
            return C(1) / (self ** (-k))
        r = C(1)
        for _ in range(k):
            r = r * self
        return r

    def conjugate(self):
        return C(self.re, -self.im)
    conj = conjugate

    @property
    def real(self):
        return self.re

    @property
    def imag(self):
        return self.im

    def abs2(self):
        return self.re * self.re + self.im * self.im

    def __abs__(self):
        return ssqrt(self.abs2())

    def __eq__(self, o):
        o = C.lift(o)
        return band(self.re == o.re, self.im == o.im)

    def __ne__(self, o):
        o = C.lift(o)
        return bor(self.re != o.re, self.im != o.im)
    __hash__ = None

    def __bool__(self):
        return bool(self != 0)

    def __repr__(self):
        return "(%r + %r j)" % (self.re, self.im)


_install_tensor_interop(S)
_install_tensor_interop(C)


# ------------------------------------------------------------------------------------------ explorer
class Explorer:
    """DFS over branch decisions.  Each path re-executes the harness with a decision prefix."""
    cur = None

    def __init__(self, timeout_ms=10000, logic=None, max_paths=400, max_decisions=400):
        self.timeout_ms = timeout_ms
        self.logic = logic
        self.max_paths = max_paths
        self.max_decisions = max_decisions
        self.feas_timeout_ms = 500
        self.feas_abs_timeout_ms = 1500
        self.model = None
        self.nqueries = 0
        self.solver_time = 0.0
        self.work = [[]]
        self.paths = 0
        self.unknown_feas = 0
        self.aborted = 0
        self.truncated = False
        self.uses_uf = False
        self.uses_int = False
        self.query_log = []  # (kind, result, seconds)
        self._reset_path()

    def _reset_path(self):
        self.prefix = []
        self.pos = 0
        self.pc = []          # list of (z3 bool, kind)
        self.nonzero = []
        self.plants = []
        self.sqrts = []
        self.sqrt_hits = 0
        self.plant_hits = 0
        self.concretized = []
        self.assumption_notes = []
        self.model = None
        self.trace = []

    # -- solver plumbing
    def _logic(self):
        if self.logic:
            return self.logic
        if self.uses_int:
            return None
        return "QF_UFNRA" if self.uses_uf else "QF_NRA"

    def _solver(self, timeout_ms=None):
        lg = self._logic()
        s = z3.SolverFor(lg) if lg else z3.Solver()
        s.set("timeout", int(timeout_ms or self.timeout_ms))
        try:
            s.set("random_seed", SEED)
        except z3.Z3Exception:
            pass
        return s

    @staticmethod
    def _dag_size(exprs, limit):
        seen = set()
        stack = list(exprs)
        while stack:
            t = stack.pop()
            i = t.get_id()
            if i in seen:
                continue
            seen.add(i)
            if len(seen) > limit:
                return len(seen)
            stack.extend(t.children())
        return len(seen)

    def _smt_subprocess(self, cons, timeout_ms):
        """second opinion from z3's SMT core (linear arithmetic + on-demand non-linear lemmas), run as a separate
        process because that engine does not honour timeouts reliably.  Only an 'unsat' answer is used."""
        import subprocess
        import tempfile
        if self._dag_size(cons, 4000) > 4000:
            return "unknown"       # far too large for the SMT core (and for printing)
        z3bin = os.path.join(sys.prefix, "bin", "z3")
        if not os.path.exists(z3bin):
            z3bin = "z3-new"
        s = z3.SolverFor("QF_UFNRA" if self.uses_uf else "QF_NRA")     # tactic solver: add() only stores the assertion
        for c in cons:
            s.add(c)
        txt = s.to_smt2().replace("(check-sat)", "(check-sat-using (then simplify solve-eqs smt))")
        txt = "\n".join(l for l in txt.splitlines() if not l.startswith("(set-logic"))
        with tempfile.NamedTemporaryFile("w", suffix=".smt2", delete=False) as f:
            f.write(txt)
            name = f.name
        try:
            p = subprocess.run([z3bin, "-T:%d" % max(1, int(timeout_ms / 1000 + 0.999)), name], capture_output=True,
                               text=True, timeout=timeout_ms / 1000 + 5)
            out = p.stdout.strip().splitlines()
            if any("(error" in l for l in out):
                return "unknown"
            return out[0] if out and out[0] in ("sat", "unsat", "unknown") else "unknown"
        except (subprocess.TimeoutExpired, OSError):
            return "unknown"
        finally:
            try:
                os.unlink(name)
            except OSError:
                pass

    def _check(self, extra, abstraction=False, timeout_ms=None, want_model=False, kind="q", second_opinion=False):
        """one-shot nlsat (QF_NRA / QF_UFNRA) query; claims additionally get a second opinion from the SMT core"""
        t = time.time()
        self.nqueries += 1
        total = int(timeout_ms or self.timeout_ms)
        cons = [c for c, k in self.pc if not (abstraction and k == "root-def")] + list(extra)
        r, model = "unknown", None
        if second_opinion:
            # claims: (1) nlsat after expansion to sums of monomials (decides polynomial identities the default
            # preprocessing does not), (2) the SMT core in its own process (fast on 'mostly linear' control claims)
            if not self.uses_uf and not self.uses_int:
                try:
                    s1 = z3.Then(z3.With("simplify", som=True), "qfnra-nlsat").solver()
                    s1.set("timeout", max(1000, total // 2))
                    for c in cons:
                        s1.add(c)
                    r = str(s1.check())
                    if r == "sat":
                        if want_model:
                            model = s1.model()
                except z3.Z3Exception:
                    r = "unknown"
            if r == "unknown" and self._smt_subprocess(cons, min(total, 2500)) == "unsat":
                r = "unsat"
        if r == "unknown":
            s = self._solver(total)
            for c in cons:
                s.add(c)
            try:
                r = str(s.check())
            except z3.Z3Exception:
                r = "unknown"
            if want_model and r == "sat":
                model = s.model()
        dt = time.time() - t
        self.solver_time += dt
        self.query_log.append((kind + ("/abs" if abstraction else ""), r, round(dt, 4)))
        if r == "unknown" and os.environ.get("SYMTORCH_DUMP") and kind.startswith("claim"):
            sd = z3.Solver()
            for c in cons:
                sd.add(c)
            with open(os.path.join(os.environ["SYMTORCH_DUMP"], "q%d_%s%s.smt2" % (self.nqueries, kind, "_abs" if abstraction else "")), "w") as f:
                f.write(sd.to_smt2())
        return r, model

    def feasible(self, cond, want_model=False):
        """'sat' | 'unsat' | 'unknown' for pc & cond (linear abstraction first; see below)"""
        has_roots = any(k == "root-def" for _, k in self.pc)
        if has_roots:
            r, m = self._check([cond], abstraction=True, kind="feas", want_model=True,
                               timeout_ms=min(self.timeout_ms, self.feas_abs_timeout_ms))
            if r == "unsat":
                return ("unsat", None) if want_model else "unsat"
            # the abstraction is satisfiable/undecided: the exact query only gets a short budget; 'unknown' means
            # the branch is explored (sound: claims on it are proved under a weaker hypothesis, and a refutation
            # needs a model of the exact path condition)
            r2, m2 = self._check([cond], kind="feas", want_model=True,
                                 timeout_ms=min(self.timeout_ms, self.feas_timeout_ms))
            if r2 == "sat":
                return ("sat", m2) if want_model else "sat"
            if r2 == "unsat":
                return ("unsat", None) if want_model else "unsat"
            return (r if r == "sat" else "unknown", m) if want_model else (r if r == "sat" else "unknown")
        r, m = self._check([cond], kind="feas", want_model=True)
        return (r, m) if want_model else r

    def _model_side(self, cond):
        if self.model is None:
            return None
        try:
            v = self.model.eval(cond, model_completion=True)
        except z3.Z3Exception:
            return None
        if z3.is_true(v):
            return True
        if z3.is_false(v):
            return False
        return None

    def decide(self, cond):
        cond = z3.simplify(cond)
        if z3.is_true(cond):
            return True
        if z3.is_false(cond):
            return False
        if TRACE:
            f = sys._getframe(1)
            while f is not None and ("/symtorch/" in f.f_code.co_filename or "/site-packages/" in f.f_code.co_filename):
                f = f.f_back
            self.trace.append("%s:%d" % (os.path.basename(f.f_code.co_filename), f.f_lineno) if f else "?")
        i = self.pos
        self.pos += 1
        if self.pos > self.max_decisions:
            raise Inconclusive("more than %d decisions on one path" % self.max_decisions)
        if i < len(self.prefix):
            val = self.prefix[i]
            self.pc.append((cond if val else z3.Not(cond), "branch"))
            if self.model is not None and self._model_side(cond) is not val:
                self.model = None
            return val
        # the current model of the path condition gives one feasible side for free
        side = self._model_side(cond)
        models = {True: None, False: None}
        res = {}
        if side is not None:
            res[side] = "sat"
            models[side] = self.model
            res[not side], models[not side] = self.feasible(z3.Not(cond) if side else cond, want_model=True)
        else:
            res[True], models[True] = self.feasible(cond, want_model=True)
            res[False], models[False] = self.feasible(z3.Not(cond), want_model=True)
        if res[True] == "unknown" or res[False] == "unknown":
            self.unknown_feas += 1
        can_t = res[True] != "unsat"
        can_f = res[False] != "unsat"
        if can_t and can_f:
            self.work.append(self.prefix[:i] + [False])
            val = True
        elif can_t:
            val = True
        elif can_f:
            val = False
        else:
            raise PathAbort("infeasible")
        self.prefix = self.prefix[:i] + [val]
        self.pc.append((cond if val else z3.Not(cond), "branch"))
        self.model = models[val]
        return val

    def choose(self, n, name="choice"):
        """fork over the integers 0..n-1 (a symbolic selector made concrete by forking)"""
        for k in range(n - 1):
            v = z3.Bool("%s!%d!%d" % (name, next(_ctr), k))
            if self.decide(v):
                return k
        return n - 1

    def identity(self, a, b, timeout_ms=3000):
        """polynomial identity a == b, no hypotheses"""
        if isinstance(a, Fraction) and isinstance(b, Fraction):
            return a == b
        t = time.time()
        self.nqueries += 1
        s = z3.SolverFor("QF_UFNRA" if self.uses_uf else "QF_NRA")
        s.set("timeout", int(timeout_ms))
        s.add(_r(a) != _r(b))
        r = str(s.check())
        dt = time.time() - t
        self.solver_time += dt
        self.query_log.append(("identity", r, round(dt, 4)))
        return r == "unsat"

    def assume(self, cond, kind="assume", note=None):
        if isinstance(cond, SB):
            cond = cond.e
        if isinstance(cond, (bool, np.bool_)):
            if not cond:
                raise PathAbort("assumed False")
            return
        self.pc.append((cond, kind))
        if self.model is not None and self._model_side(cond) is not True:
            self.model = None
        if note:
            self.assumption_notes.append(note)

    def lemma(self, fact):
        """a consequence of the root definitions, kept when the definitions themselves are abstracted away"""
        fact = z3.simplify(fact)
        if z3.is_true(fact):
            return
        self.pc.append((fact, "root-lemma"))
        if self.model is not None and self._model_side(fact) is not True:
            self.model = None

    def assume_nonzero(self, t):
        if _isz3(t):
            for prev in self.nonzero:
                if prev.eq(t):
                    return
            # an identically-zero denominator would make the path vacuous: refuse instead
            if self.identically_zero(t):
                raise Inconclusive("division by an identically zero term")
            self.nonzero.append(t)
            self.pc.append((t != 0, "nonzero"))
            if self.model is not None and self._model_side(t != 0) is not True:
                self.model = None

    def identically_zero(self, t):
        """is the polynomial t identically zero (no hypotheses)?"""
        fp = fingerprint(t)
        if fp is not None and fp != 0:
            return False
        tt = time.time()
        self.nqueries += 1
        s = z3.SolverFor("QF_UFNRA" if self.uses_uf else "QF_NRA")
        s.set("timeout", 1500)
        s.add(t != 0)
        r = str(s.check())
        dt = time.time() - tt
        self.solver_time += dt
        self.query_log.append(("idzero", r, round(dt, 4)))
        return r == "unsat"

    # -- planted factorisations
    def plant(self, kind, inp, out):
        self.plants.append((kind, np.asarray(inp, dtype=object), out))

    def lookup_plant(self, kind, inp):
        for k, pin, pout in self.plants:
            if k != kind or pin.shape != inp.shape:
                continue
            cs = []
            differ = False
            for x, y in zip(pin.reshape(-1), inp.reshape(-1)):
                if isinstance(x, S) and isinstance(y, S) and not x.isinf and not y.isinf:
                    fx = (fingerprint(x.n), fingerprint(x.d), fingerprint(y.n), fingerprint(y.d))
                    if None not in fx and fx[1] != 0 and fx[3] != 0 and fx[0] / fx[1] != fx[2] / fx[3]:
                        differ = True     # different at a sample point: certainly not the planted input
                        break
                e = (x == y)
                if isinstance(e, (bool, np.bool_)):
                    if not e:
                        differ = True
                        break
                    continue
                cs.append(_b(e))
            if differ:
                continue
            if all(self.prove(c, kind="plant")[0] == "proved" for c in cs):
                self.plant_hits += 1
                return pout
        return None

    # -- claims
    def prove(self, claim, kind="claim", timeout_ms=None):
        """is `claim` valid under the path condition?  ('proved'|'refuted'|'unknown', model)"""
        if isinstance(claim, SB):
            claim = claim.e
        if isinstance(claim, (bool, np.bool_)):
            claim = z3.BoolVal(bool(claim))
        has_roots = any(k == "root-def" for _, k in self.pc)
        cand = None
        if has_roots:
            r, cand = self._check([z3.Not(claim)], abstraction=True, kind=kind, timeout_ms=timeout_ms, second_opinion=True,
                                  want_model=True)
            if r == "unsat":
                return "proved", None
        r, m = self._check([z3.Not(claim)], want_model=True, kind=kind, timeout_ms=timeout_ms, second_opinion=True)
        if r == "unsat":
            return "proved", None
        if r == "sat":
            return "refuted", m
        # undecided: look for a witness by partial concretisation (fix most input symbols to small rationals;
        # the query becomes low-dimensional).  A model found this way satisfies the exact path condition.
        m = self._concretise_search(z3.Not(claim), kind)
        if m is not None:
            return "refuted", m
        # still undecided: a model of the linear abstraction is handed back as a *candidate* (it satisfies every
        # polynomial branch condition; only the root variables are unconstrained).  It counts for nothing unless the
        # real code violates the claim on it.
        return "unknown", cand

    def _free_inputs(self, extra):
        seen = {}
        def walk(e):
            stack = [e]
            visited = set()
            while stack:
                t = stack.pop()
                tid = t.get_id()
                if tid in visited:
                    continue
                visited.add(tid)
                if z3.is_const(t) and t.decl().kind() == z3.Z3_OP_UNINTERPRETED and z3.is_real(t):
                    nm = t.decl().name()
                    if not nm.startswith("sqrt!"):
                        seen[nm] = t
                else:
                    stack.extend(t.children())
        for c, _ in self.pc:
            walk(c)
        for c in extra:
            walk(c)
        return [seen[k] for k in sorted(seen)]

    def _concretise_search(self, negclaim, kind, attempts=8, keep_free=2):
        import random
        vars_ = self._free_inputs([negclaim])
        if len(vars_) <= keep_free:
            return None
        rng = random.Random(SEED * 31 + len(vars_))
        pool = [Fraction(k, 4) for k in range(-8, 9) if k != 0] + [Fraction(1, 3), Fraction(-3, 7), Fraction(5, 8)]
        for a in range(attempts):
            free = set(rng.sample(range(len(vars_)), keep_free if a % 2 == 0 else 1))
            eqs = [v == z3.RealVal(str(rng.choice(pool))) for i, v in enumerate(vars_) if i not in free]
            r, m = self._check([negclaim] + eqs, want_model=True, kind=kind + "-concretised", timeout_ms=2500)
            if r == "sat":
                return m
        return None

    # -- driver
    def run(self, fn):
        """yield (decision prefix, outcome) for every explored path; outcome is fn's return value,
        or ('inconclusive', reason) when the engine had to stop on that path"""
        while self.work:
            if self.paths >= self.max_paths:
                self.truncated = True
                break
            prefix = self.work.pop()
            self._reset_path()
            self.prefix = prefix
            Explorer.cur = self
            try:
                res = fn(self)
                yield (list(self.prefix), res)
            except PathAbort:
                self.aborted += 1
            except Inconclusive as e:
                yield (list(self.prefix), ("inconclusive", str(e)))
            finally:
                Explorer.cur = None
            self.paths += 1


def model_value(m, term):
    """float value of a z3 real term in model m"""
    v = m.eval(_r(term), model_completion=True)
    return z3val_to_float(v)


def z3val_to_float(v):
    if z3.is_rational_value(v):
        return float(Fraction(v.numerator_as_long(), v.denominator_as_long()))
    if z3.is_algebraic_value(v):
        return float(v.approx(20).as_fraction())
    try:
        return float(v.as_fraction())
    except Exception:
        s = v.as_decimal(20) if hasattr(v, "as_decimal") else str(v)
        return float(s.rstrip("?"))
