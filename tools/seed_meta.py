#!/usr/bin/env python3
"""seed_meta.py: (re)write seeded/<ID>/meta.json from notes.md (written by the agent that produced the change), verify.json
(written by seed_matrix.py) and the table below (what I did about it), and print the markdown table used in DESIGN.md."""
import json, os, re, sys

ROOT = "/verif/seeded"
# how the check relates to the seed: "as built" = the check caught it without modification after it was first run against the seed
HISTORY = {
    "C01": ("caught, slow", "caught by the witness hunt (partial concretisation) of krylov/bicgstab configurations with a diagonal operator and 2 columns; hunt budget raised for these configurations after the first run took too long"),
    "C02": ("strengthened", "first run missed it (needs second order through a composed/non-linear operator); added second-order configurations with matmul and non-linearly parametrised matrix-free operators"),
    "C03": ("as built", ""),
    "C04": ("strengthened", "first run missed it (needs a non-differentiable argument before the differentiable ones); added placement explicit_nd_first"),
    "C05": ("as built", "svd mode='lowest' on non-square planted matrices"),
    "C06": ("strengthened", "first run missed it (needs a batch with mixed degeneracy); added the auxiliary real_only configuration batch_mixed (concrete differential, labelled as such)"),
    "C07": ("as built", ""),
    "C08": ("as built", ""),
    "C09": ("as built", ""),
    "C10": ("as built", ""),
    "C11": ("strengthened", "first run missed it (needs an operand batch that differs between the two summands); added operand-specific batch configurations for add/sub/matmul"),
    "C12": ("as built", ""),
    "C13": ("strengthened", "first run missed it (needs two calls in one process with different options); added the sequence scenario"),
    "C14": ("as built", ""),
    "C15": ("strengthened", "the C14 check caught it at once; the C15 check compared SQuad with Interp1D (both wrong in the same way) and missed it; added an independent textbook spline integral as oracle"),
    "C16": ("as built", "reported when first run; the patch no longer applies since the genuine repair c523fef rewrote the branch it modified (kept for the record)"),
    "C17": ("strengthened", "first run missed it (needs a non-differentiable argument before the selected index on the re-evaluation path); added jac/hess newparams/nondiff_args_first"),
    "C18": ("as built", "patch regenerated after the fix f9b18ed touched the same lines"),
    "C20": ("as built", ""),
    # ---- round 2 (each agent was told which location round 1 had used and asked for a different mechanism)
    "C01b": ("strengthened", "missed (needs batched shifts E with several columns in a Krylov method); added krylov/cg/scalar/.../Ebatch/c2 (A = g*I converges in one iteration for every shift, so the layout of E is decided symbolically)"),
    "C02b": ("strengthened", "missed by C02 (needs a complex composed operator with a dense part); the C11 check caught it as built; added complex add/sub/add_dense configurations to C02"),
    "C03b": ("strengthened", "missed: the change introduces float(tensor) on a symbolic value, which ended those paths inconclusive; the root-solver modules now get a symbolic float pass-through, so the clamp f_tol=max(f_tol, eps*|f(y0)|) is explored with |f(y0)| unbounded"),
    "C04b": ("strengthened", "missed (needs an iterative backward solver on a non-symmetric Jacobian); added ift2d/fixed0/bck_cg (cg run to exact convergence, symbolic cotangent) and, in C01, normal-equation configurations on fixed non-normal matrices"),
    "C05b": ("NOT CAUGHT", "davidson is outside the bound of the C05 check (iterative; n >= 5 with n % neig != 0 needed); declined rather than adding a concrete test"),
    "C06b": ("strengthened", "missed (needs svd of a wide matrix-free operator); added svd/exacteig/wide2x3/{mvonly,mvrmv}; the C02 check also reports it through the new second-order mv-only configuration"),
    "C07b": ("strengthened", "missed (the controller scenarios replaced the error norm and never observed the tolerance scale); added controller_scale: one real _single_step from an arbitrary symbolic state, raw error symbolic, accept <=> err < atol + rtol*max(|y_start|,|y_new|)"),
    "C08b": ("strengthened", "missed (needs two calls in one process and observation of the options the backward integration receives); added option_flow/sequence with a recording caller-supplied method"),
    "C09b": ("strengthened", "missed (needs make_sibling of three or more methods); added representation multi_sibling3"),
    "C10b": ("strengthened", "missed (needs the alias pattern a,a,b,c,b among an operator's tensors); added the symbolic-identity unit unique_params (all alias patterns of n <= 5 tensors, z3 decides)"),
    "C11b": ("strengthened", "missed (needs an operand with fewer, non-singleton batch dimensions than the operator); added batchA22_x2 configurations"),
    "C12b": ("strengthened", "missed (needs limits given as float32 / int64 tensors with a float64 integrand); added limit_dtypes (decided by the dtype tag in the symbolic run, by the value in the float64 replay)"),
    "C13b": ("as built", ""),
    "C14b": ("strengthened", "missed (needs the gradient w.r.t. query points outside the range); added extrap_grad"),
    "C15b": ("strengthened", "missed (needs a size-1 batch dimension in an inner position); shapes/dims generalised - this also exposed two genuine defects of SQuad.integrate (negative dims, >=4-D samples), now fixed"),
    "C16b": ("strengthened", "missed (needs a custom step that returns the same tensor object every time); added buffered_step"),
    "C17b": ("as built", "caught by the nondiff_args_first configuration added after round 1"),
    "C18b": ("strengthened", "missed (needs bck_options with another method for solve_ivp); added option_flow/bck_options (also registered under C08)"),
    "C20b": ("as built", ""),
    # ---- round 3 (told about both earlier locations)
    "C01c": ("as built", "krylov/cg control claims: a right-hand side between atol and rtol returned zeros silently"),
    "C02c": ("strengthened", "missed (needs an input that does not require grad next to a differentiable E); added requires-grad patterns B_constant / A_constant / E_constant / AB_constant"),
    "C03c": ("NOT CAUGHT", "needs a user function that returns NaN outside its domain; the engine works over exact reals (NaN only as a constant), an uninterpreted function cannot return NaN: outside the technique's reach as built"),
    "C04c": ("strengthened", "the solver found the counterexample at once (cotangent entries <= 1e-8 in magnitude), but the float64 replay compared with an absolute floor and did not confirm it (reported as harness error, exit 2); the replay now takes a second, purely relative look"),
    "C05c": ("strengthened", "not reported in round 3 (davidson was outside the bound); reported since round 4 by the bounded davidson scenario (2x2, v_init='eye', with M: M-normalisation and the residual of the returned pair)"),
    "C06c": ("NOT CAUGHT", "needs second-order differentiation w.r.t. a non-linearly parametrised matrix-free M; second order with M is outside the bound stated for C06"),
    "C07c": ("strengthened", "missed (needs a float32 solve before a float64 one: class-level tableau state); added tableau_state"),
    "C09c": ("strengthened", "missed by the four functionals checked so far (needs a functional that wraps the method in a sibling of its own); added equilibrium / quad_tuple / hess over the aliased-tensor representations"),
    "C10c": ("as built", "crash/equilibrium/editable (aliased tensors) reports the module changed after a complete run"),
    "C11c": ("strengthened", "missed (needs the product of two Hermitian-flagged operators that do not commute); added matmul_herm kinds"),
    "C12c": ("strengthened", "missed (needs an integrand that returns an existing tensor, e.g. its stored coefficient); added constant_integrand (value and caller's tensor unchanged)"),
    "C13c": ("strengthened", "missed (needs a tuple-valued integrand given as a method of an object that holds a differentiable tensor); added tuple_module; the C09 quad_tuple functional reports it too"),
    "C14c": ("as built", "3-knot periodic splines on non-uniform grids"),
    "C15c": ("strengthened", "missed (needs the documented default method together with a requested bc_type); added default_method configurations"),
    "C16c": ("strengthened", "missed (tuple-valued f as a method of a module holding a differentiable tensor); added tuple_module"),
    "C17c": ("strengthened", "reported only indirectly (an exception in another scenario); added the idxs=0 / empty-selection validation claims"),
    "C18c": ("strengthened", "missed (needs a falsy callable or the empty name); added falsy_callable for six entry points and the empty name to every names scenario"),
    "C20c": ("as built", "symbolic-identity unit on _get_unique_idxs"),
    # ---- round 4 (told about all earlier locations)
    "C02d": ("strengthened", "missed (needs a plain backward BEFORE a graph-recording one on the same operator object: state cached on the operator between backward passes); added histories of backward passes (2nd_plain_first, 2nd_resolve)"),
    "C05d": ("strengthened", "missed (needs svd of a Hermitian-FLAGGED operator with an indefinite spectrum); added svd/herm2x2 (3x3 thorough) over all sign patterns: singular values are the magnitudes of the planted eigenvalues"),
    "C08d": ("as built", "param_graph/duplicate (the same leaf in two parameter slots)"),
    "C01d": ("strengthened", "missed (needs E and M with M alone batched); added krylov/cg/scalar/AEM/Mbatch{,1} (A = g*I, M = m_k*I: one-iteration convergence for every shift and batch element, so the alignment of E's column axis against M's batch axis is decided symbolically)"),
    "C03d": ("strengthened", "the equilibrium/anderson_acc configuration finds it in 70 s on its own, but in the full quick run its deciding query timed out while 16 workers competed for the cores and the run ended 'inconclusive' (exit 0); the driver now gives configurations with undecided claims a second, uncontended run"),
    "C04d": ("strengthened", "missed (needs second order through solve's own autograd Function with a non-differentiable argument first); added ift1d/.../explicit_nd_first/2nd/bck_custom_exactsolve (root, guess and cotangent fixed at rationals, a and b symbolic: with everything symbolic the second-order claims were beyond z3)"),
    "C06d": ("as built", "svd/exacteig/full: degenerate zero singular values"),
    "C07d": ("strengthened", "missed (the controller scenarios were self-consistent with the solver's internal, already mirrored function); added 'rhs only evaluated inside the integration interval' and 'decreasing ts = mirrored problem on increasing -ts' to controller/*/decreasing"),
    "C09d": ("strengthened", "missed (needs a frozen parameter registered BEFORE the parameter the map is non-linear in, second order, backward solve through solve's autograd Function); added functional rootfinder_bck, module kind nn_rev and pattern middle_frozen"),
    "C10d": ("strengthened", "missed (the debug flag was only observed around functional calls, never with enable_debug/disable_debug blocks entered when the flag already had the requested value); added debug_contexts (both previous values x all nestings up to depth 3 x crash points)"),
    "C11d": ("as built", "products/dense/complex: rmv of a complex dense leaf"),
    "C12d": ("as built", "infinite/n2: nodes are the tan image of the affine nodes in t"),
    "C13d": ("as built", "grad/n2/2nd"),
    "C14d": ("as built", "spline/*/call: y given at call time"),
    "C15d": ("as built", "simpson on non-uniform grids: running integral of the interpolant"),
    "C16d": ("strengthened", "missed (needs f and log p as two methods of ONE object); added same_object/{nn,editable}"),
    "C17d": ("strengthened", "missed (needs an operator BUILT under no_grad and differentiated later); added jac|hess/differentiable/built_under_no_grad and the reverse (product under no_grad of an operator built with grad on)"),
    "C18d": ("strengthened", "missed (needs a built-in root solver warm-started exactly on the root, then a gradient); added builtin_warm_start_on_root (shared with C04: first and second order, y0 constant or differentiable) and C03 exact_start - which exposed a genuine defect (complex exact start raised), fixed"),
    "C20d": ("strengthened", "missed (needs mutable non-tensor content the traversal does not descend into: a list inside a tuple, a set, a bytearray, an ndarray); added template opaque_leaves and the history 'edit a result in place, rebuild again'"),
    # ROUND4_MORE
}


def section(text, *names):
    for nm in names:
        m = re.search(r"^##\s*" + nm + r".*?$(.*?)(?=^##\s|\Z)", text, re.M | re.S | re.I)
        if m:
            return re.sub(r"\s+", " ", m.group(1)).strip()
    return ""


rows = []
for sid in sorted(os.listdir(ROOT)):
    d = os.path.join(ROOT, sid)
    if not os.path.exists(d + "/patch.diff"):
        continue
    notes = open(d + "/notes.md").read() if os.path.exists(d + "/notes.md") else ""
    ver = json.load(open(d + "/verify.json")) if os.path.exists(d + "/verify.json") else {}
    files = sorted(set(re.findall(r"^\+\+\+ b/(\S+)", open(d + "/patch.diff").read(), re.M)))
    prop = sid[:3]
    hist = HISTORY.get(sid, ("as built", ""))
    meta = {
        "seed": sid,
        "property": prop,
        "origin": "fresh sub-agent given only the property text and a scratch worktree of /repo (nothing from /verif)",
        "files_changed": files,
        "change": section(notes, "The change", "Change")[:1500],
        "clause_broken": section(notes, "Which clause", "Clause", "Property clauses", "Clauses")[:1200],
        "needs_to_manifest": section(notes, "What is needed", "What it needs", "What exactly is needed")[:2500],
        "existing_tests": section(notes, "Tests run", "Tests", "Verification")[:1500],
        "what_i_ran": {
            "tool": "python3 tools/seed_matrix.py %s  (git -C /repo apply patch.diff; demo.py; ./check %s --tier quick --no-evidence; git -C /repo checkout -- .)" % (sid, prop),
            "repo_head": ver.get("head"),
            "demo_rc_without_change": ver.get("demo_rc_without_change"),
            "demo_rc_with_change": ver.get("demo_rc_with_change"),
            "quick_check_rc_with_change": ver.get("quick_check_rc_with_change"),
            "violation_lines": ver.get("violation_lines"),
            "violations_sample": ver.get("violations_sample"),
            "quick_check_wall_s": ver.get("quick_check_wall_s"),
        },
        "detected_by_quick_check": ver.get("quick_check_rc_with_change") == 1 and (ver.get("violation_lines") or 0) > 0,
        "check_history": {"status": hist[0], "note": hist[1]},
    }
    json.dump(meta, open(d + "/meta.json", "w"), indent=1)
    first = (ver.get("violations_sample") or ["-"])[0].replace(".json", "")
    rows.append("| %s | %s | %s | %s | %s | %s | %s |" % (
        sid, ", ".join(os.path.basename(f) for f in files), "yes" if meta["detected_by_quick_check"] else "NO",
        ver.get("violation_lines"), ver.get("quick_check_wall_s"), hist[0], (hist[1] or first)[:400]))
table = "| seed | file changed | quick check reports VIOLATION | lines | wall s | check | note / first violated claim |\n" \
        "|------|--------------|------|------|------|------|------|\n" + "\n".join(rows) + "\n"
print(table)
dp = "/verif/DESIGN.md"
d = open(dp).read()
b, e = "<!-- SEED_TABLE_BEGIN -->\n", "<!-- SEED_TABLE_END -->"
if b in d and e in d:
    d = d[:d.index(b) + len(b)] + table + d[d.index(e):]
    open(dp, "w").write(d)
