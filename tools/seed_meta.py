#!/usr/bin/env python3
"""seed_meta.py: (re)write seeded/<ID>/meta.json from notes.md (written by the agent that produced the change), verify.json
(written by seed_matrix.py) and the table below (what I did about it), and print the markdown table used in DESIGN.md."""
import json, os, re, sys

ROOT = "/verif/seeded"
# how the check relates to the seed: "as built" = the check caught it without modification after it was first run against the seed
HISTORY = {
    "C01": ("caught, slow", "caught by the witness hunt (partial concretisation) of krylov/bicgstab configurations with a diagonal operator and 2 columns; hunt budget raised for these configurations after the first run took too long"),
    "C02": ("strengthened", "first run missed it (needs second order through a composed/non-linear operator); added second-order configurations with matmul and non-linearly parametrised matrix-free operators"),
    "C03": ("as built", ""),
    "C04": ("strengthened", "first run missed it (needs a non-differentiable argument before the differentiable ones); added placement explicit_nd_first"),
    "C05": ("as built", "svd mode='lowest' on non-square planted matrices"),
    "C06": ("strengthened", "first run missed it (needs a batch with mixed degeneracy); added the auxiliary real_only configuration batch_mixed (concrete differential, labelled as such)"),
    "C07": ("as built", ""),
    "C08": ("as built", ""),
    "C09": ("as built", ""),
    "C10": ("as built", ""),
    "C11": ("strengthened", "first run missed it (needs an operand batch that differs between the two summands); added operand-specific batch configurations for add/sub/matmul"),
    "C12": ("as built", ""),
    "C13": ("strengthened", "first run missed it (needs two calls in one process with different options); added the sequence scenario"),
    "C14": ("as built", ""),
    "C15": ("strengthened", "the C14 check caught it at once; the C15 check compared SQuad with Interp1D (both wrong in the same way) and missed it; added an independent textbook spline integral as oracle"),
    "C16": ("as built", ""),
    "C17": ("strengthened", "first run missed it (needs a non-differentiable argument before the selected index on the re-evaluation path); added jac/hess newparams/nondiff_args_first"),
    "C18": ("as built", "patch regenerated after the fix f9b18ed touched the same lines"),
    "C20": ("as built", ""),
}


def section(text, *names):
    for nm in names:
        m = re.search(r"^##\s*" + nm + r".*?$(.*?)(?=^##\s|\Z)", text, re.M | re.S | re.I)
        if m:
            return re.sub(r"\s+", " ", m.group(1)).strip()
    return ""


rows = []
for sid in sorted(os.listdir(ROOT)):
    d = os.path.join(ROOT, sid)
    if not os.path.exists(d + "/patch.diff"):
        continue
    notes = open(d + "/notes.md").read() if os.path.exists(d + "/notes.md") else ""
    ver = json.load(open(d + "/verify.json")) if os.path.exists(d + "/verify.json") else {}
    files = sorted(set(re.findall(r"^\+\+\+ b/(\S+)", open(d + "/patch.diff").read(), re.M)))
    prop = sid[:3]
    hist = HISTORY.get(sid, ("as built", ""))
    meta = {
        "seed": sid,
        "property": prop,
        "origin": "fresh sub-agent given only the property text and a scratch worktree of /repo (nothing from /verif)",
        "files_changed": files,
        "change": section(notes, "The change", "Change")[:1500],
        "clause_broken": section(notes, "Which clause", "Clause", "Property clauses", "Clauses")[:1200],
        "needs_to_manifest": section(notes, "What is needed", "What it needs", "What exactly is needed")[:2500],
        "existing_tests": section(notes, "Tests run", "Tests", "Verification")[:1500],
        "what_i_ran": {
            "tool": "python3 tools/seed_matrix.py %s  (git -C /repo apply patch.diff; demo.py; ./check %s --tier quick --no-evidence; git -C /repo checkout -- .)" % (sid, prop),
            "repo_head": ver.get("head"),
            "demo_rc_without_change": ver.get("demo_rc_without_change"),
            "demo_rc_with_change": ver.get("demo_rc_with_change"),
            "quick_check_rc_with_change": ver.get("quick_check_rc_with_change"),
            "violation_lines": ver.get("violation_lines"),
            "violations_sample": ver.get("violations_sample"),
            "quick_check_wall_s": ver.get("quick_check_wall_s"),
        },
        "detected_by_quick_check": ver.get("quick_check_rc_with_change") == 1 and (ver.get("violation_lines") or 0) > 0,
        "check_history": {"status": hist[0], "note": hist[1]},
    }
    json.dump(meta, open(d + "/meta.json", "w"), indent=1)
    first = (ver.get("violations_sample") or ["-"])[0].replace(".json", "")
    rows.append("| %s | %s | %s | %s | %s | %s | %s |" % (
        sid, ", ".join(os.path.basename(f) for f in files), "yes" if meta["detected_by_quick_check"] else "NO",
        ver.get("violation_lines"), ver.get("quick_check_wall_s"), hist[0], (hist[1] or first)[:170]))
print("| seed | file changed | quick check reports VIOLATION | lines | wall s | check | note / first violated claim |")
print("|------|--------------|------|------|------|------|------|")
print("\n".join(rows))
