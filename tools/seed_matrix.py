#!/usr/bin/env python3
"""seed_matrix.py [IDs...]: for every seeded change under /verif/seeded apply it to /repo's working tree, run the demonstration and the
quick check of its property, undo it, and write the outcome to seeded/<ID>/verify.json (never commits anything to /repo)."""
import json, os, subprocess, sys, time, re

ROOT = "/verif"
env = dict(os.environ, OMP_NUM_THREADS="1", MKL_NUM_THREADS="1")


def sh(cmd, **kw):
    return subprocess.run(cmd, shell=True, capture_output=True, text=True, env=env, **kw)


def main():
    ids = sys.argv[1:] or sorted(os.listdir(ROOT + "/seeded"))
    if sh("git -C /repo diff --quiet").returncode != 0:
        print("repo dirty"); sys.exit(2)
    for sid in ids:
        d = "%s/seeded/%s" % (ROOT, sid)
        if not os.path.exists(d + "/patch.diff"):
            continue
        out = {}
        r = sh("/venv/bin/python %s/demo.py" % d, cwd="/repo")
        out["demo_rc_without_change"] = r.returncode
        a = sh("git -C /repo apply %s/patch.diff" % d)
        if a.returncode != 0:
            out["apply_error"] = a.stderr[-300:]
        else:
            try:
                r = sh("/venv/bin/python %s/demo.py" % d, cwd="/repo")
                out["demo_rc_with_change"] = r.returncode
                t = time.time()
                c = sh("./check %s --tier quick --no-evidence" % sid, cwd=ROOT)
                out["quick_check_rc_with_change"] = c.returncode
                out["quick_check_wall_s"] = round(time.time() - t, 1)
                v = [l for l in c.stdout.splitlines() if l.startswith("VIOLATION")]
                out["violation_lines"] = len(v)
                out["violations_sample"] = [re.sub(r".*replay=/verif/replays/", "", l) for l in v[:8]]
                out["summary"] = [l for l in c.stdout.splitlines() if l.startswith(sid + " tier=")][-1:]
            finally:
                sh("git -C /repo checkout -- .")
        out["head"] = sh("git -C /repo rev-parse --short HEAD").stdout.strip()
        json.dump(out, open(d + "/verify.json", "w"), indent=1)
        print(sid, out.get("demo_rc_without_change"), out.get("demo_rc_with_change"), out.get("quick_check_rc_with_change"),
              out.get("violation_lines"), out.get("quick_check_wall_s"), flush=True)


main()
