#!/usr/bin/env python3
"""seed_matrix.py [--jobs N] [IDs...]: for every seeded change under /verif/seeded (e.g. C13, C13b: the property is the first three
characters) make a scratch worktree of /repo's HEAD under /tmp, apply the patch THERE, run the demonstration and the quick check of
its property against that worktree (VERIF_REPO), remove the worktree, and write the outcome to seeded/<ID>/verify.json.
/repo's own working tree is never modified and nothing is committed.  New agent output in /tmp/seed_<ID>/ is imported first."""
import json, os, re, shutil, subprocess, sys, time

ROOT = "/verif"
env = dict(os.environ, OMP_NUM_THREADS="1", MKL_NUM_THREADS="1")


def sh(cmd, **kw):
    e = dict(env)
    e.update(kw.pop("env", {}))
    return subprocess.run(cmd, shell=True, capture_output=True, text=True, env=e, **kw)


def main():
    args = sys.argv[1:]
    jobs = None
    if args and args[0] == "--jobs":
        jobs = args[1]
        args = args[2:]
    ids = args or sorted(os.listdir(ROOT + "/seeded"))
    for sid in ids:
        d = "%s/seeded/%s" % (ROOT, sid)
        src = "/tmp/seed_%s" % sid
        if not os.path.exists(d + "/patch.diff") and os.path.exists(src + "/patch.diff"):
            os.makedirs(d, exist_ok=True)
            for f in ("patch.diff", "demo.py", "notes.md"):
                if os.path.exists(src + "/" + f):
                    shutil.copy(src + "/" + f, d + "/" + f)
        if not os.path.exists(d + "/patch.diff"):
            continue
        prop = sid[:3]
        wt = "/tmp/seedwt_%s" % sid
        sh("git -C /repo worktree remove --force %s" % wt)
        out = {"head": sh("git -C /repo rev-parse --short HEAD").stdout.strip()}
        a = sh("git -C /repo worktree add --detach %s HEAD" % wt)
        try:
            r = sh("/venv/bin/python %s/demo.py" % d, cwd=wt)
            out["demo_rc_without_change"] = r.returncode
            a = sh("git -C %s apply %s/patch.diff" % (wt, d))
            if a.returncode != 0:
                a = sh("git -C %s apply -C1 %s/patch.diff" % (wt, d))
            if a.returncode != 0:
                out["apply_error"] = a.stderr[-300:]
            else:
                r = sh("/venv/bin/python %s/demo.py" % d, cwd=wt)
                out["demo_rc_with_change"] = r.returncode
                out["demo_tail_with_change"] = (r.stdout + r.stderr)[-400:]
                t = time.time()
                c = sh("./check %s --tier quick --no-evidence %s" % (prop, "--jobs %s" % jobs if jobs else ""), cwd=ROOT,
                       env={"VERIF_REPO": wt})
                out["quick_check_rc_with_change"] = c.returncode
                out["quick_check_wall_s"] = round(time.time() - t, 1)
                v = [l for l in c.stdout.splitlines() if l.startswith("VIOLATION")]
                out["violation_lines"] = len(v)
                out["violations_sample"] = [re.sub(r".*replay=/verif/replays/", "", l) for l in v[:8]]
                out["summary"] = [l for l in c.stdout.splitlines() if l.startswith(prop + " tier=")][-1:]
        finally:
            sh("git -C /repo worktree remove --force %s" % wt)
        json.dump(out, open(d + "/verify.json", "w"), indent=1)
        print(sid, out.get("demo_rc_without_change"), out.get("demo_rc_with_change"), out.get("quick_check_rc_with_change"),
              out.get("violation_lines"), out.get("quick_check_wall_s"), (out.get("violations_sample") or [""])[0], flush=True)


main()
