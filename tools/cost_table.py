#!/usr/bin/env python3
"""cost_table.py: replace the table between COST_TABLE markers in DESIGN.md by the measured cost of the last quick run of every
check, read from evidence/<ID>.json (written by the checks themselves)."""
import json, glob, os, re
rows = ["| id | tier | configs | paths | SMT queries | solver s | wall s | inconclusive |", "|---|---|---|---|---|---|---|---|"]
for f in sorted(glob.glob("/verif/evidence/C*.json")):
    e = json.load(open(f))
    c = e["coverage"]
    rows.append("| %s | %s | %s | %s | %s | %s | %s | %s |" % (e["property_id"], e["tier"], c.get("configs"), c.get("paths_explored"),
                c.get("evaluations"), c.get("solver_time_s"), e.get("wall_s"), c.get("inconclusive")))
txt = "\n".join(rows)
p = "/verif/DESIGN.md"
s = open(p).read()
if "<!-- COST_TABLE_BEGIN -->" in s:
    s = re.sub(r"<!-- COST_TABLE_BEGIN -->.*?<!-- COST_TABLE_END -->", "<!-- COST_TABLE_BEGIN -->\n" + txt + "\n<!-- COST_TABLE_END -->", s, flags=re.S)
else:
    s = s.replace("\nCOST_TABLE\n", "\n<!-- COST_TABLE_BEGIN -->\n" + txt + "\n<!-- COST_TABLE_END -->\n\nThe thorough tier uses per-configuration budgets of up to 1700 s; its total is dominated by C01, C02, C04 and C06 (tens of minutes each on 16 cores).\n")
open(p, "w").write(s)
print(txt)
