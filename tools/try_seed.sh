#!/bin/bash
# try_seed.sh <SEED-ID> [check args...]: apply seeded/<ID>/patch.diff (or /tmp/seed_<ID>/patch.diff) in a scratch worktree and run the
# property's check against it (VERIF_REPO); the worktree is removed afterwards.  /repo's working tree is never modified.
ID="$1"; shift
P=/verif/seeded/$ID/patch.diff; [ -f "$P" ] || P=/tmp/seed_$ID/patch.diff
WT=/tmp/trywt_$ID
git -C /repo worktree remove --force $WT >/dev/null 2>&1
git -C /repo worktree add --detach $WT HEAD >/dev/null 2>&1 || exit 2
git -C $WT apply "$P" || git -C $WT apply -C1 "$P" || { echo "patch does not apply"; git -C /repo worktree remove --force $WT; exit 2; }
cd /verif && VERIF_REPO=$WT ./check ${ID:0:3} --no-evidence "$@"
RC=$?
git -C /repo worktree remove --force $WT
exit $RC
