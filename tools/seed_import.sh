#!/bin/bash
# seed_import.sh <ID> [<check-id> <--only filter>]: verify an agent-produced seeded change and store it under /verif/seeded/<ID>/
set -u
ID="$1"; SRC=/tmp/seed_$ID; DST=/verif/seeded/$ID
mkdir -p "$DST"
cd /repo
git diff --quiet || { echo "repo dirty"; exit 2; }
git apply -C1 "$SRC/patch.diff" || git apply --3way "$SRC/patch.diff" || { echo "patch does not apply"; exit 2; }
git reset -q
git diff > "$DST/patch.diff"
cp "$SRC/demo.py" "$DST/demo.py"
[ -f "$SRC/notes.md" ] && cp "$SRC/notes.md" "$DST/notes.md"
echo "--- demo WITH the change (must fail)"
OMP_NUM_THREADS=1 /venv/bin/python "$DST/demo.py" > /tmp/seed_demo_with.log 2>&1; RC_WITH=$?
tail -3 /tmp/seed_demo_with.log
git checkout -- .
echo "--- demo WITHOUT the change (must pass)"
OMP_NUM_THREADS=1 /venv/bin/python "$DST/demo.py" > /tmp/seed_demo_without.log 2>&1; RC_WITHOUT=$?
tail -3 /tmp/seed_demo_without.log
echo "demo rc with=$RC_WITH without=$RC_WITHOUT"
echo "{\"demo_rc_with_change\": $RC_WITH, \"demo_rc_without_change\": $RC_WITHOUT}" > "$DST/verify.json"
