#!/usr/bin/env python3
"""line-ending preserving exact replacement: subst.py FILE  (reads OLD and NEW from two files given as args 2,3)"""
import sys
path, oldf, newf = sys.argv[1:4]
s = open(path, newline='').read()
crlf = '\r\n' in s
old = open(oldf).read()
new = open(newf).read()
if crlf:
    old = old.replace('\r\n', '\n').replace('\n', '\r\n')
    new = new.replace('\r\n', '\n').replace('\n', '\r\n')
n = s.count(old)
if n != 1:
    sys.exit("expected exactly one occurrence, found %d" % n)
open(path, 'w', newline='').write(s.replace(old, new))
